//! JSON encoding of machine words for TLC: TLC integers are 32-bit, so a word
//! never appears as a JSON number; it is an array of 16-bit limbs, least
//! significant first (u32 = [lo,hi], u64 = [l0,l1,l2,l3]).
use serde_json::{json, Value};

pub fn u32j(x: u32) -> Value {
    json!([x & 0xffff, x >> 16])
}
pub fn u64j(x: u64) -> Value {
    json!([x & 0xffff, (x >> 16) & 0xffff, (x >> 32) & 0xffff, x >> 48])
}
pub fn i64j(x: i64) -> Value {
    u64j(x as u64)
}
pub fn bytesj(b: &[u8]) -> Value {
    Value::Array(b.iter().map(|&x| json!(x)).collect())
}
pub fn limbs_to_u64(v: &Value) -> u64 {
    let a = v.as_array().expect("limb array");
    let mut x = 0u64;
    for (i, l) in a.iter().enumerate() {
        x |= (l.as_u64().expect("limb") & 0xffff) << (16 * i);
    }
    x
}
pub fn limbs_to_u32(v: &Value) -> u32 {
    limbs_to_u64(v) as u32
}
pub fn json_bytes(v: &Value) -> Vec<u8> {
    v.as_array()
        .expect("byte array")
        .iter()
        .map(|b| b.as_u64().expect("byte") as u8)
        .collect()
}
/// little-endian bytes -> words of `wbytes` bytes each, as limb arrays
pub fn bytes_to_wordsj(b: &[u8], wbytes: usize) -> Value {
    let mut out = Vec::new();
    for c in b.chunks(wbytes) {
        if wbytes == 4 {
            out.push(u32j(u32::from_le_bytes([c[0], c[1], c[2], c[3]])));
        } else {
            let mut a = [0u8; 8];
            a.copy_from_slice(c);
            out.push(u64j(u64::from_le_bytes(a)));
        }
    }
    Value::Array(out)
}

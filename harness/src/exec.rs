//! Executes a schedule (one JSON op per line) on the real generator types and
//! emits one trace event per op: the op echoed, plus what the call returned and
//! a cheap observation of the instance afterwards.  A panic in code under test
//! is data (`"panic": msg`), never a harness failure.
use crate::dynrng::*;
use crate::sources::*;
use crate::words::*;
use serde_json::{json, Map, Value};
use std::collections::HashMap;
use std::panic::{catch_unwind, AssertUnwindSafe};
use std::sync::atomic::{AtomicBool, AtomicUsize, Ordering};
use std::sync::{Arc, Mutex, OnceLock};

static REG: OnceLock<Registry> = OnceLock::new();
pub static LAST_PANIC_AT: Mutex<Option<String>> = Mutex::new(None);
pub fn global_registry() -> Registry {
    REG.get_or_init(|| Arc::new(Mutex::new(Vec::new()))).clone()
}

#[derive(Default)]
pub struct Exec {
    pub gens: HashMap<u64, Box<dyn Dyn>>,
    pub srcs: HashMap<u64, ByteSource>,
    pub fsrcs: HashMap<u64, FallibleSource>,
    pub timers: HashMap<u64, (Vec<u64>, Vec<u64>)>,
    pub snaps: HashMap<u64, (Option<Vec<u8>>, Option<String>, String)>,
    pub bg: Vec<(Arc<AtomicBool>, std::thread::JoinHandle<u64>)>,
}

fn panic_msg(e: Box<dyn std::any::Any + Send>) -> String {
    if let Some(s) = e.downcast_ref::<&str>() {
        s.to_string()
    } else if let Some(s) = e.downcast_ref::<String>() {
        s.clone()
    } else {
        "<non-string panic>".into()
    }
}

fn get_u64(op: &Value, k: &str) -> u64 {
    op.get(k)
        .and_then(|v| v.as_u64())
        .unwrap_or_else(|| panic!("schedule op lacks integer field {}: {}", k, op))
}

/// carries a freshly built generator out of the thread that built it (nothing else refers to it)
struct SendIt<T>(T);
unsafe impl<T> Send for SendIt<T> {}

/// the calls made on a source during one constructor: the list itself, or - beyond 4096 calls - its summary
fn src_log_fields(log: &[(&'static str, usize)], out: &mut Vec<(String, Value)>) {
    if log.len() <= 4096 {
        out.push(("src_log".into(), Value::Array(log.iter().map(|(m, n)| json!([m, n])).collect())));
    } else {
        out.push(("src_log_n".into(), json!(log.len())));
        out.push(("src_delivered".into(), json!(log.iter().map(|(_, n)| *n).sum::<usize>())));
        out.push(("src_failed".into(), json!(log.iter().any(|(m, _)| m.ends_with('!')))));
        out.push((
            "src_fill_only".into(),
            json!(log.iter().all(|(m, _)| *m == "fill_bytes" || *m == "try_fill_bytes!")),
        ));
    }
}

impl Exec {
    pub fn new() -> Self {
        Self::default()
    }

    pub fn reset(&mut self) {
        self.stop_bg();
        self.gens.clear();
        self.srcs.clear();
        self.fsrcs.clear();
        self.timers.clear();
        self.snaps.clear();
        global_registry().lock().unwrap().clear();
    }

    fn stop_bg(&mut self) -> u64 {
        let mut total = 0;
        for (flag, h) in self.bg.drain(..) {
            flag.store(true, Ordering::SeqCst);
            total += h.join().unwrap_or(0);
        }
        total
    }

    /// Execute one op; returns the event (the op with results merged in).
    pub fn step(&mut self, op: &Value) -> Value {
        let mut ev: Map<String, Value> = op.as_object().expect("op object").clone();
        let name = op["op"].as_str().expect("op name").to_string();
        ev.insert("e".into(), json!(name));
        let r = catch_unwind(AssertUnwindSafe(|| self.step_inner(&name, op)));
        match r {
            Ok(fields) => {
                for (k, v) in fields {
                    // TLC's Json module has no null: an absent result is an absent field
                    if v.is_null() {
                        ev.insert(format!("no_{}", k), json!(true));
                    } else {
                        ev.insert(k, v);
                    }
                }
            }
            Err(e) => {
                ev.insert("panic".into(), json!(panic_msg(e)));
                if let Some(at) = LAST_PANIC_AT.lock().unwrap().take() {
                    ev.insert("panic_at".into(), json!(at));
                }
            }
        }
        // observation of the instance(s) named by the op, after the op
        for key in ["g", "to"] {
            if let Some(g) = op.get(key).and_then(|v| v.as_u64()) {
                if let Some(inst) = self.gens.get(&g) {
                    let o = catch_unwind(AssertUnwindSafe(|| inst.obs())).unwrap_or(Value::Null);
                    if !o.is_null() {
                        ev.insert(if key == "g" { "obs".into() } else { "obs_to".into() }, o);
                    }
                }
            }
        }
        // == events: the observations of both operands
        if name == "eq" {
            for key in ["a", "b"] {
                if let Some(g) = op.get(key).and_then(|v| v.as_u64()) {
                    if let Some(inst) = self.gens.get(&g) {
                        let o = catch_unwind(AssertUnwindSafe(|| inst.obs())).unwrap_or(Value::Null);
                        if !o.is_null() {
                            ev.insert(format!("obs_{}", key), o);
                        }
                    }
                }
            }
        }
        // timer readings consumed by this op (jitter instances)
        if let Some(g) = op.get("g").and_then(|v| v.as_u64()) {
            if let Some(inst) = self.gens.get_mut(&g) {
                if let Some(j) = inst.jitter() {
                    let reads = j.drain_reads();
                    if name == "skip" {
                        // very many collections: the number of readings and a digest of them instead of the list
                        let mut h: u64 = 0xcbf29ce484222325;
                        for &x in &reads {
                            h = (h ^ x).wrapping_mul(0x100000001b3);
                        }
                        ev.insert("reads_n".into(), json!(reads.len()));
                        ev.insert("reads_digest".into(), u64j(h));
                    } else {
                        ev.insert("reads".into(), Value::Array(reads.iter().map(|&x| u64j(x)).collect()));
                    }
                }
            }
        }
        Value::Object(ev)
    }

    fn gen(&mut self, op: &Value, key: &str) -> &mut Box<dyn Dyn> {
        let g = get_u64(op, key);
        self.gens
            .get_mut(&g)
            .unwrap_or_else(|| panic!("schedule error: no instance {}", g))
    }

    fn built(&mut self, g: u64, b: Built, out: &mut Vec<(String, Value)>) {
        match b {
            Built::Ok(x) => {
                self.gens.insert(g, x);
                out.push(("ok".into(), json!(true)));
            }
            Built::SrcErr(e) => {
                self.gens.remove(&g);
                out.push(("ok".into(), json!(false)));
                out.push(("err_call".into(), json!(e.at_call)));
            }
            Built::Unsupported(m) => {
                self.gens.remove(&g);
                out.push(("unsupported".into(), json!(m)));
            }
        }
    }

    fn step_inner(&mut self, name: &str, op: &Value) -> Vec<(String, Value)> {
        let mut out: Vec<(String, Value)> = Vec::new();
        match name {
            "from_seed" => {
                let g = get_u64(op, "g");
                let seed = json_bytes(&op["seed"]);
                let b = construct(op["kind"].as_str().unwrap(), Ctor::FromSeed(&seed));
                self.built(g, b, &mut out);
            }
            "default_ctor" => {
                // `Default::default()` of a kind, if it has it (a constructor like any other); with serde the state image
                let g = get_u64(op, "g");
                let b = construct(op["kind"].as_str().unwrap(), Ctor::Default);
                self.built(g, b, &mut out);
                #[cfg(feature = "serde1")]
                if let Some(img) = self.gens.get(&g).and_then(|x| x.ser_bincode()) {
                    if out.iter().any(|(k, _)| k == "ok") {
                        out.push(("image".into(), bytesj(&img)));
                    }
                }
            }
            "seed_from_u64" => {
                let g = get_u64(op, "g");
                let x = limbs_to_u64(&op["x"]);
                let b = construct(op["kind"].as_str().unwrap(), Ctor::SeedFromU64(x));
                self.built(g, b, &mut out);
            }
            "src" => {
                let s = get_u64(op, "s");
                let bytes = json_bytes(&op["bytes"]);
                let mut inner = ByteSource::new(bytes);
                inner.lead = op.get("lead").and_then(|v| v.as_u64()).unwrap_or(0) as usize;
                if op.get("fallible").and_then(|v| v.as_bool()).unwrap_or(false) {
                    self.fsrcs.insert(
                        s,
                        FallibleSource {
                            inner,
                            fail_at: op.get("fail_at").and_then(|v| v.as_u64()).map(|x| x as usize),
                            partial: op.get("partial").and_then(|v| v.as_u64()).unwrap_or(0) as usize,
                            sticky: op.get("sticky").and_then(|v| v.as_bool()).unwrap_or(false),
                            failures: 0,
                        },
                    );
                } else {
                    self.srcs.insert(s, inner);
                }
            }
            "from_rng" => {
                let g = get_u64(op, "g");
                let s = get_u64(op, "s");
                let kind = op["kind"].as_str().unwrap().to_string();
                let mut src = self.srcs.remove(&s).expect("schedule error: no source");
                let before = src.log.len();
                // "on_thread": the constructor runs on a fresh std thread (default stack size)
                let r = if op.get("on_thread").and_then(|v| v.as_bool()).unwrap_or(false) {
                    std::thread::scope(|sc| {
                        sc.spawn(|| SendIt(catch_unwind(AssertUnwindSafe(|| construct(&kind, Ctor::FromRng(&mut src))))))
                            .join()
                            .map(|r| r.0)
                            .unwrap_or_else(Err)
                    })
                } else {
                    catch_unwind(AssertUnwindSafe(|| construct(&kind, Ctor::FromRng(&mut src))))
                };
                out.push(("src_pos".into(), json!(src.pos)));
                out.push(("src_calls".into(), json!(src.calls)));
                src_log_fields(&src.log[before..], &mut out);
                self.srcs.insert(s, src);
                match r {
                    Ok(b) => self.built(g, b, &mut out),
                    Err(e) => out.push(("panic".into(), json!(panic_msg(e)))),
                }
            }
            "try_from_rng" => {
                let g = get_u64(op, "g");
                let s = get_u64(op, "s");
                let kind = op["kind"].as_str().unwrap().to_string();
                let mut src = self.fsrcs.remove(&s).expect("schedule error: no fallible source");
                let before = src.inner.log.len();
                let r = catch_unwind(AssertUnwindSafe(|| construct(&kind, Ctor::TryFromRng(&mut src))));
                out.push(("src_pos".into(), json!(src.inner.pos)));
                out.push(("src_calls".into(), json!(src.inner.calls)));
                out.push(("src_failures".into(), json!(src.failures)));
                src_log_fields(&src.inner.log[before..], &mut out);
                self.fsrcs.insert(s, src);
                match r {
                    Ok(b) => self.built(g, b, &mut out),
                    Err(e) => out.push(("panic".into(), json!(panic_msg(e)))),
                }
            }
            "next_u32" | "next_u64" => {
                let n = op.get("n").and_then(|v| v.as_u64());
                let inst = self.gen(op, "g");
                let mut one = |inst: &mut Box<dyn Dyn>| -> Value {
                    if name == "next_u32" {
                        inst.next_u32().map(u32j).unwrap_or(Value::Null)
                    } else {
                        inst.next_u64().map(u64j).unwrap_or(Value::Null)
                    }
                };
                match n {
                    None => out.push(("ret".into(), one(inst))),
                    Some(n) => {
                        let v: Vec<Value> = (0..n).map(|_| one(inst)).collect();
                        out.push(("ret".into(), Value::Array(v)));
                    }
                }
            }
            "fill_bytes" => {
                let n = get_u64(op, "n") as usize;
                // "off": the destination starts `off` bytes after an 8-byte boundary (default 0)
                let off = op.get("off").and_then(|v| v.as_u64()).unwrap_or(0) as usize;
                let inst = self.gen(op, "g");
                // pre-fill with a sentinel so that bytes left unwritten are visible
                let mut store = vec![0xA5u8; n + off + 16];
                let a = store.as_ptr().align_offset(8) + off;
                let buf = &mut store[a..a + n];
                let ok = inst.fill_bytes(buf);
                out.push(("ret".into(), if ok { bytesj(buf) } else { Value::Null }));
            }
            "generate" => {
                let inst = self.gen(op, "g");
                out.push(("ret".into(), inst.generate().unwrap_or(Value::Null)));
            }
            "skip" => {
                // advance far into the stream without recording it: `bytes` bytes are drawn through fill_bytes
                // (64 KiB at a time), next_u32 or next_u64; what is recorded is an FNV-1a digest of all of them
                // "bytes", or "kib" (units of 1024 bytes) for amounts beyond what a 32-bit reader of the trace can hold
                let n = match op.get("kib").and_then(|v| v.as_u64()) {
                    Some(k) => k * 1024,
                    None => get_u64(op, "bytes"),
                };
                let via = op["via"].as_str().unwrap().to_string();
                let inst = self.gen(op, "g");
                let hashing = op.get("digest").and_then(|v| v.as_bool()).unwrap_or(true);
                let mut h: u64 = 0xcbf29ce484222325;
                let mut eat = |b: &[u8]| {
                    if !hashing {
                        return;
                    }
                    for &x in b {
                        h ^= x as u64;
                        h = h.wrapping_mul(0x100000001b3);
                    }
                };
                let mut left = n;
                let off = op.get("off").and_then(|v| v.as_u64()).unwrap_or(0) as usize;
                let mut store = vec![0u8; 65536 + off + 16];
                let a = store.as_ptr().align_offset(8) + off;
                let buf = &mut store[a..a + 65536];
                while left > 0 {
                    match via.as_str() {
                        "fill" => {
                            let k = left.min(65536) as usize;
                            inst.fill_bytes(&mut buf[..k]);
                            eat(&buf[..k]);
                            left -= k as u64;
                        }
                        "u32" => {
                            eat(&inst.next_u32().unwrap().to_le_bytes());
                            left = left.saturating_sub(4);
                        }
                        _ => {
                            eat(&inst.next_u64().unwrap().to_le_bytes());
                            left = left.saturating_sub(8);
                        }
                    }
                }
                if hashing {
                    out.push(("digest".into(), u64j(h)));
                }
            }
            "jump" | "long_jump" => {
                let inst = self.gen(op, "g");
                let ok = if name == "jump" { inst.jump() } else { inst.long_jump() };
                out.push(("ok".into(), json!(ok)));
            }
            "clone" => {
                let to = get_u64(op, "to");
                let c = self.gen(op, "g").clone_box();
                match c {
                    Some(c) => {
                        self.gens.insert(to, c);
                        out.push(("ok".into(), json!(true)));
                    }
                    None => out.push(("ok".into(), json!(false))),
                }
            }
            "clone_from" => {
                // Clone::clone_from: instance `g` is overwritten with a copy of instance `from`
                let g = get_u64(op, "g");
                let from = get_u64(op, "from");
                let src = self.gens.remove(&from).expect("schedule error: clone_from source");
                let ok = match self.gens.get_mut(&g) {
                    Some(dst) => dst.clone_from_dyn(src.as_ref()),
                    None => false,
                };
                let o = catch_unwind(AssertUnwindSafe(|| src.obs())).unwrap_or(Value::Null);
                if !o.is_null() {
                    out.push(("obs_from".into(), o));
                }
                self.gens.insert(from, src);
                out.push(("ok".into(), json!(ok)));
            }
            "panic_scan" => {
                // C14: look for a panic over many seeds of one kind, natively (no trace per seed).  Nothing is
                // decided here: what is found is handed back as (seed, stage) and replayed as an ordinary schedule.
                let kind = op["kind"].as_str().unwrap().to_string();
                let n = get_u64(op, "n");
                let len = get_u64(op, "seed_len") as usize;
                let outs = op.get("outputs").and_then(|v| v.as_u64()).unwrap_or(8);
                let threads = op.get("threads").and_then(|v| v.as_u64()).unwrap_or(1).max(1);
                let quiet = threads > 1;      // many panics on many threads: keep the panic hook's bookkeeping out of the way
                let _ = quiet;
                let mut handles = Vec::new();
                for t in 0..threads {
                    let kind = kind.clone();
                    handles.push(std::thread::spawn(move || {
                        let mut found: Vec<Value> = Vec::new();
                        let mut k = t;
                        while k < n {
                            if found.len() >= 4 {
                                break;
                            }
                            let mut seed = vec![0u8; len];
                            let kb = k.to_le_bytes();
                            let m = len.min(8);
                            seed[..m].copy_from_slice(&kb[..m]);
                            for (stage, ctor) in [("from_seed", 0u8), ("seed_from_u64", 1u8), ("from_seed_spread", 2u8)] {
                                let kind2 = kind.clone();
                                let seed2: Vec<u8> = if ctor == 2 {
                                    // the counter spread over the whole seed with an LCG: dense seeds
                                    let mut x = k.wrapping_mul(0x9E3779B97F4A7C15) | 1;
                                    (0..len).map(|_| { x = x.wrapping_mul(6364136223846793005).wrapping_add(1442695040888963407); (x >> 56) as u8 }).collect()
                                } else {
                                    seed.clone()
                                };
                                let r = catch_unwind(AssertUnwindSafe(|| {
                                    let b = if ctor == 1 { construct(&kind2, Ctor::SeedFromU64(k.wrapping_mul(0x2545F4914F6CDD1D))) } else { construct(&kind2, Ctor::FromSeed(&seed2)) };
                                    if let Built::Ok(mut g) = b {
                                        for _ in 0..outs {
                                            let _ = g.next_u32();
                                            let _ = g.next_u64();
                                        }
                                        let mut buf = [0u8; 37];
                                        let _ = g.fill_bytes(&mut buf);
                                        let _ = g.generate();
                                        let _ = g.jump();
                                        let _ = g.next_u64();
                                    }
                                }));
                                if r.is_err() {
                                    let _ = LAST_PANIC_AT.lock().unwrap().take();
                                    found.push(json!({"k": k, "stage": stage, "seed": seed2,
                                                      "x": u64j(k.wrapping_mul(0x2545F4914F6CDD1D))}));
                                }
                            }
                            k += threads;
                        }
                        found
                    }));
                }
                let mut found: Vec<Value> = Vec::new();
                for h in handles {
                    for f in h.join().expect("panic_scan thread") {
                        if found.len() < 6 {
                            found.push(f);
                        }
                    }
                }
                out.push(("scanned".into(), json!(n)));
                out.push(("found".into(), Value::Array(found)));
            }
            "debug_scan" => {
                // C17: the Debug text of a freshly seeded generator over very many seeds (k as 8 little-endian bytes,
                // zero padded), optionally after `advance` native words.  Nothing is decided here: every distinct text
                // comes back with example seeds, and differing seeds are then run as an ordinary schedule.
                let kind = op["kind"].as_str().unwrap().to_string();
                let n = get_u64(op, "n");
                let len = get_u64(op, "seed_len") as usize;
                let adv = op.get("advance").and_then(|v| v.as_u64()).unwrap_or(0);
                let threads = op.get("threads").and_then(|v| v.as_u64()).unwrap_or(8).max(1);
                let mut handles = Vec::new();
                for t in 0..threads {
                    let kind = kind.clone();
                    handles.push(std::thread::spawn(move || {
                        let mut texts: HashMap<String, (u64, Vec<u64>)> = HashMap::new();
                        let mut k = t;
                        while k < n {
                            let mut seed = vec![0u8; len];
                            let m = len.min(8);
                            seed[..m].copy_from_slice(&k.to_le_bytes()[..m]);
                            if let Built::Ok(mut g) = construct(&kind, Ctor::FromSeed(&seed)) {
                                for _ in 0..adv {
                                    let _ = g.next_u32();
                                }
                                let (a, b) = g.debug();
                                let e = texts.entry(format!("{}\u{1}{}", a, b)).or_insert((0, Vec::new()));
                                e.0 += 1;
                                if e.1.len() < 3 {
                                    e.1.push(k);
                                }
                            }
                            k += threads;
                        }
                        texts
                    }));
                }
                let mut all: HashMap<String, (u64, Vec<u64>)> = HashMap::new();
                for h in handles {
                    for (t, (c, ks)) in h.join().expect("debug_scan thread") {
                        let e = all.entry(t).or_insert((0, Vec::new()));
                        e.0 += c;
                        for k in ks {
                            if e.1.len() < 3 {
                                e.1.push(k);
                            }
                        }
                    }
                }
                let mut v: Vec<(String, (u64, Vec<u64>))> = all.into_iter().collect();
                v.sort_by(|a, b| b.1 .0.cmp(&a.1 .0));
                out.push(("scanned".into(), json!(n)));
                out.push(("texts".into(), Value::Array(v.iter().take(6).map(|(t, (c, ks))| json!({"text": t.replace('\u{1}', " | "), "count": c, "seeds": ks})).collect())));
            }
            "eq" => {
                let a = get_u64(op, "a");
                let b = get_u64(op, "b");
                let ga = self.gens.get(&a).expect("schedule error: eq a");
                let gb = self.gens.get(&b).expect("schedule error: eq b");
                out.push((
                    "ret".into(),
                    match ga.eq_dyn(gb.as_ref()) {
                        Some(x) => json!(x),
                        None => Value::Null,
                    },
                ));
            }
            "ser" => {
                let g = get_u64(op, "g");
                let inst = self.gens.get(&g).expect("schedule error: ser");
                let b = inst.ser_bincode();
                let j = inst.ser_json();
                out.push(("supported".into(), json!(b.is_some())));
                if let Some(b) = &b {
                    out.push(("image".into(), bytesj(b)));
                }
                if let Some(j) = &j {
                    out.push(("json_len".into(), json!(j.len())));
                    if op.get("want_json").and_then(|v| v.as_bool()).unwrap_or(false) {
                        out.push(("json".into(), json!(j)));
                    }
                }
                if let Some(ok) = inst.json_value_roundtrip() {
                    out.push(("json_value_ok".into(), json!(ok)));
                }
                self.snaps.insert(g, (b, j, inst.kind().to_string()));
            }
            #[cfg(feature = "serde1")]
            "de" => {
                // restore the last snapshot of instance `g` as instance `to`
                let g = get_u64(op, "g");
                let to = get_u64(op, "to");
                let fmt = op.get("fmt").and_then(|v| v.as_str()).unwrap_or("bincode");
                let (b, j, kind) = self.snaps.get(&g).expect("schedule error: no snapshot").clone();
                let built = if fmt == "json" {
                    match &j {
                        Some(j) => construct(&kind, Ctor::DeJson(j)),
                        None => Built::Unsupported("no snapshot".into()),
                    }
                } else if fmt == "embedded" {
                    // the snapshot as one field of a larger record: (u32, generator, u64) in bincode is the
                    // generator's own image between the images of the two integers
                    match &b {
                        Some(b) => {
                            let mut rec = crate::dynrng::EMB_BEFORE.to_le_bytes().to_vec();
                            rec.extend_from_slice(b);
                            rec.extend_from_slice(&crate::dynrng::EMB_AFTER.to_le_bytes());
                            construct(&kind, Ctor::DeEmbedded(&rec))
                        }
                        None => Built::Unsupported("no snapshot".into()),
                    }
                } else {
                    match &b {
                        Some(b) => construct(&kind, Ctor::DeBincode(b)),
                        None => Built::Unsupported("no snapshot".into()),
                    }
                };
                self.built(to, built, &mut out);
            }
            #[cfg(feature = "serde1")]
            "de_image" => {
                // deserialize literal image bytes given in the schedule
                let to = get_u64(op, "to");
                let built = match op.get("json").and_then(|v| v.as_str()) {
                    // a literal JSON text instead of bincode bytes
                    Some(text) => construct(op["kind"].as_str().unwrap(), Ctor::DeJson(text)),
                    None => {
                        let img = json_bytes(&op["image"]);
                        construct(op["kind"].as_str().unwrap(), Ctor::DeBincode(&img))
                    }
                };
                self.built(to, built, &mut out);
            }
            "debug" => {
                let inst = self.gen(op, "g");
                let (a, b) = inst.debug();
                out.push(("text".into(), json!(a)));
                out.push(("alt".into(), json!(b)));
            }
            "drop" => {
                let g = get_u64(op, "g");
                self.gens.remove(&g);
            }
            // ---- jitter ----
            "timer" => {
                let t = get_u64(op, "t");
                let mut rd: Vec<u64> = op["readings"].as_array().unwrap().iter().map(limbs_to_u64).collect();
                // "stall": {"at": k, "count": n} - the clock stands still: reading k-1 is repeated n more times
                if let Some(st) = op.get("stall") {
                    let at = st["at"].as_u64().unwrap() as usize;
                    let n = st["count"].as_u64().unwrap() as usize;
                    let v = rd[at - 1];
                    let tail = rd.split_off(at);
                    rd.extend(std::iter::repeat(v).take(n));
                    rd.extend(tail);
                }
                let cont: Vec<u64> = op
                    .get("cont")
                    .and_then(|v| v.as_array())
                    .map(|a| a.iter().map(limbs_to_u64).collect())
                    .unwrap_or_default();
                self.timers.insert(t, (rd, cont));
            }
            "jit_new" => {
                let g = get_u64(op, "g");
                let t = get_u64(op, "t");
                let (rd, cont) = self.timers.get(&t).expect("schedule error: no timer").clone();
                let cur = new_cursor(rd, cont, &global_registry());
                self.gens.insert(g, new_jitter(cur));
            }
            "set_rounds" => {
                let r = get_u64(op, "r") as u8;
                let inst = self.gen(op, "g");
                inst.jitter().expect("jitter op on non-jitter").set_rounds(r);
            }
            "arm_fault" => {
                let after = get_u64(op, "after") as usize;
                let inst = self.gen(op, "g");
                inst.jitter().expect("jitter op on non-jitter").arm_fault(after);
            }
            "timer_stats" => {
                let var = op["var"].as_bool().unwrap();
                let inst = self.gen(op, "g");
                let r = inst.jitter().expect("jitter op on non-jitter").timer_stats(var);
                out.push(("ret".into(), i64j(r)));
            }
            "test_timer" => {
                let inst = self.gen(op, "g");
                let then_set = op.get("then_set").and_then(|v| v.as_bool()).unwrap_or(false);
                let j = inst.jitter().expect("jitter op on non-jitter");
                match j.test_timer() {
                    Ok(r) => {
                        out.push(("ok_rounds".into(), json!(r)));
                        if then_set {
                            // the documented idiom rng.set_rounds(rng.test_timer()?)
                            let res = catch_unwind(AssertUnwindSafe(|| j.set_rounds(r)));
                            out.push(("set_panic".into(), json!(res.is_err())));
                        }
                    }
                    Err((e, text)) => {
                        out.push(("err".into(), json!(e)));
                        out.push(("err_text".into(), json!(text)));
                    }
                }
            }
            "set_pool" => {
                let p = limbs_to_u64(&op["pool"]);
                let inst = self.gen(op, "g");
                inst.jitter().expect("jitter op on non-jitter").set_pool(p);
            }
            "stir" => {
                let inst = self.gen(op, "g");
                inst.jitter().expect("jitter op on non-jitter").stir();
            }
            "seek" => {
                // re-seat the generator's scripted timer cursor (C15: every extraction call sees the same readings)
                let pos = get_u64(op, "pos") as usize;
                let inst = self.gen(op, "g");
                inst.jitter().expect("jitter op on non-jitter").seek(pos);
            }
            "collide" => {
                // Search for two different inputs of a pool map with the same image (C15, used only when the
                // map turned out not to be affine so that rank arguments do not apply).  What is found is a
                // concrete pair; it is confirmed separately by replaying the two inputs.
                let which = op["map"].as_str().unwrap().to_string();
                let budget = op.get("budget").and_then(|v| v.as_u64()).unwrap_or(1 << 16);
                let inst = self.gen(op, "g");
                let j = inst.jitter().expect("jitter op on non-jitter");
                let apply = |m: &str, x: u64, j: &mut dyn JitterOps| -> u64 {
                    j.set_pool(x);
                    match m {
                        "st" => j.stir(),
                        "lv" => {
                            let _ = j.timer_stats(true);
                        }
                        _ => {
                            let _ = j.timer_stats(false);
                        }
                    }
                    let _ = j.drain_reads();
                    j.pool()
                };
                let mut f = |x: u64, j: &mut dyn JitterOps| -> u64 { apply(&which, x, j) };
                let mut xs: Vec<u64> = vec![0, !0];
                // closure of a few start values under the code's own pool maps (both fold paths and the stir):
                // a step whose iteration count depends on the pool merges values that lie on one such orbit
                {
                    let mut r = 0xD1B54A32D192ED03u64;
                    let mut starts: Vec<u64> = vec![0, 1, !0];
                    for _ in 0..29 {
                        r ^= r << 13;
                        r ^= r >> 7;
                        r ^= r << 17;
                        starts.push(r);
                    }
                    for &s0 in &starts {
                        for m in ["lp", "lv", "st"] {
                            let mut x = s0;
                            for _ in 0..48 {
                                x = apply(m, x, j);
                                xs.push(x);
                            }
                        }
                    }
                }
                {
                    // low-weight neighbourhoods of random points: lossy steps (a shift for a rotation, an OR or
                    // AND for an XOR) merge values that differ in one or two bits
                    let mut r = 0xA0761D6478BD642Fu64;
                    for _ in 0..256 {
                        r ^= r << 13;
                        r ^= r >> 7;
                        r ^= r << 17;
                        xs.push(r);
                        for a in 0..64 {
                            xs.push(r ^ (1u64 << a));
                        }
                    }
                }
                for a in 0..64 {
                    xs.push(1u64 << a);
                    xs.push(!(1u64 << a));
                    for b in (a + 1)..64 {
                        xs.push((1u64 << a) | (1u64 << b));
                    }
                }
                let mut r = 0x9E3779B97F4A7C15u64;
                for _ in 0..budget {
                    r ^= r << 13;
                    r ^= r >> 7;
                    r ^= r << 17;
                    xs.push(r);
                }
                let mut seen: HashMap<u64, u64> = HashMap::new();
                let mut diffs: HashMap<u64, u32> = HashMap::new();
                let mut found: Option<(u64, u64, u64)> = None;
                for &x in &xs {
                    let z = f(x, j);
                    *diffs.entry(x ^ z).or_insert(0) += 1;
                    if let Some(&y) = seen.get(&z) {
                        if y != x {
                            found = Some((y, x, z));
                            break;
                        }
                    }
                    seen.insert(z, x);
                }
                if found.is_none() {
                    // inverse guess for maps of the form x ^ m(x): y = z ^ c for the most frequent c = x ^ f(x)
                    let mut top: Vec<(u64, u32)> = diffs.into_iter().collect();
                    top.sort_by(|a, b| b.1.cmp(&a.1));
                    'outer: for &(c, _) in top.iter().take(8) {
                        for (&z, &x) in seen.iter().take(4096) {
                            let y = z ^ c;
                            if y != x && f(y, j) == z {
                                found = Some((x, y, z));
                                break 'outer;
                            }
                        }
                    }
                }
                if found.is_none() {
                    // maps of the form x + m(x), x - m(x) or m(x) - x (mod 2^64) with m affine over GF(2) - an XOR
                    // replaced by word arithmetic.  m is read off the code (65 probes) after an affinity test; pools
                    // confined to the low 64-k bits whose m-image is also confined to them have sums in a range
                    // of about 2^(65-k), so that 2^(64-2k) of them (k = 20: 16 million) contain colliding pairs.
                    // Whatever is found is evaluated on the code itself before it is reported.
                    type Comb = fn(u64, u64) -> u64;
                    let forms: [(Comb, Comb); 3] = [
                        (|x, m| x.wrapping_add(m), |x, z| z.wrapping_sub(x)),
                        (|x, m| x.wrapping_sub(m), |x, z| x.wrapping_sub(z)),
                        (|x, m| m.wrapping_sub(x), |x, z| z.wrapping_add(x)),
                    ];
                    'forms: for (comb, uncomb) in forms.iter() {
                        let mut m = |x: u64, j: &mut dyn JitterOps| -> u64 { uncomb(x, f(x, j)) };
                        let m0 = m(0, j);
                        let mut r = 0x2545F4914F6CDD1Du64;
                        let mut nxt = || {
                            r ^= r << 13;
                            r ^= r >> 7;
                            r ^= r << 17;
                            r
                        };
                        let mut affine = true;
                        for _ in 0..48 {
                            let (a, b) = (nxt(), nxt());
                            if m(a ^ b, j) ^ m(a, j) ^ m(b, j) ^ m0 != 0 {
                                affine = false;
                                break;
                            }
                        }
                        if !affine {
                            continue;
                        }
                        let cols: Vec<u64> = (0..64).map(|i| m(1u64 << i, j) ^ m0).collect();
                        let lin = |p: u64| -> u64 { (0..64).fold(0u64, |a, i| if (p >> i) & 1 == 1 { a ^ cols[i] } else { a }) };
                        for k in [20u32, 19, 21, 18] {
                            let low = 64 - k;
                            // kernel of p -> (top k bits of lin(p)) on the pools confined to the low bits
                            let mut rows: Vec<(u64, u64)> = Vec::new();
                            let mut kern: Vec<u64> = Vec::new();
                            for i in 0..low {
                                let (mut v, mut pre) = (cols[i as usize] >> low, 1u64 << i);
                                for &(rv, rp) in rows.iter() {
                                    if v ^ rv < v {
                                        v ^= rv;
                                        pre ^= rp;
                                    }
                                }
                                if v != 0 {
                                    rows.push((v, pre));
                                    rows.sort_by(|a, b| b.0.cmp(&a.0));
                                } else {
                                    kern.push(pre);
                                }
                            }
                            let d = kern.len().min(24);
                            if d < 8 {
                                continue;
                            }
                            let kl: Vec<u64> = kern.iter().map(|&b| lin(b)).collect();
                            let mut vals: Vec<(u64, u64)> = Vec::with_capacity(1 << d);
                            let (mut p, mut mp) = (0u64, m0);
                            vals.push((comb(p, mp), p));
                            for n in 1u64..(1u64 << d) {
                                let b = n.trailing_zeros() as usize; // Gray code: one basis vector changes
                                p ^= kern[b];
                                mp ^= kl[b];
                                vals.push((comb(p, mp), p));
                            }
                            vals.sort_unstable();
                            for w in vals.windows(2) {
                                if w[0].0 == w[1].0 && w[0].1 != w[1].1 {
                                    let (a, b) = (w[0].1, w[1].1);
                                    let (za, zb) = (f(a, j), f(b, j));
                                    if za == zb {
                                        found = Some((a, b, za));
                                        break 'forms;
                                    }
                                }
                            }
                        }
                    }
                }
                out.push(("tried".into(), json!(xs.len())));
                if let Some((a, b, z)) = found {
                    out.push(("collision".into(), json!([u64j(a), u64j(b), u64j(z)])));
                }
            }
            "eq_search" => {
                // Soundness of a hand-written ==: among n generators built from the seeds k = 0..n (k as 8
                // little-endian bytes, zero padded) look for two DIFFERENT seeds that compare equal.  Nothing is
                // decided here: the pairs found are handed back and then driven in lock-step by a schedule.
                let kind = op["kind"].as_str().unwrap().to_string();
                let n = get_u64(op, "n") as usize;
                let len = get_u64(op, "seed_len") as usize;
                let threads = op.get("threads").and_then(|v| v.as_u64()).unwrap_or(8) as usize;
                let mut gens: Vec<Box<dyn Dyn>> = Vec::with_capacity(n);
                for k in 0..n {
                    let mut seed = vec![0u8; len];
                    seed[..8].copy_from_slice(&(k as u64).to_le_bytes());
                    match construct(&kind, Ctor::FromSeed(&seed)) {
                        Built::Ok(g) => gens.push(g),
                        _ => panic!("schedule error: cannot construct {}", kind),
                    }
                }
                struct Shared(Vec<Box<dyn Dyn>>);
                unsafe impl Sync for Shared {}
                let shared = Shared(gens);
                let found: Mutex<Vec<(usize, usize)>> = Mutex::new(Vec::new());
                std::thread::scope(|sc| {
                    for t in 0..threads {
                        let shared = &shared;
                        let found = &found;
                        sc.spawn(move || {
                            let g = &shared.0;
                            let mut i = t;
                            while i < g.len() {
                                for j in (i + 1)..g.len() {
                                    if g[i].eq_dyn(g[j].as_ref()) == Some(true) {
                                        let mut f = found.lock().unwrap();
                                        if f.len() < 8 {
                                            f.push((i, j));
                                        }
                                    }
                                }
                                i += threads;
                            }
                        });
                    }
                });
                let f = found.into_inner().unwrap();
                out.push(("searched".into(), json!(n)));
                out.push(("pairs".into(), Value::Array(f.iter().map(|&(a, b)| json!([a, b])).collect())));
            }
            "by_value_copy" => {
                // C16: a JitterRng over a plain `fn` timer (a Copy type).  If the generator itself is Copy (found out at
                // compile time), a by-value duplicate is a clone that nobody wrote: it is made while the original owes
                // the high half of a value, and the readings its first next_u32 takes are recorded.
                use rand_core::RngCore;
                static TICKS: std::sync::atomic::AtomicU64 = std::sync::atomic::AtomicU64::new(0);
                fn tick() -> u64 {
                    let n = TICKS.fetch_add(1, Ordering::SeqCst);
                    (1 << 40) + n * 977 + (n * n % 89) * 31 + (n % 7) * 5
                }
                let mut a = rand_jitter::JitterRng::new_with_timer(tick as fn() -> u64);
                a.set_rounds(1);
                let first = a.next_u32();
                out.push(("first".into(), u32j(first)));
                match (&CopyProbe(&a)).maybe_copy() {
                    None => out.push(("possible".into(), json!(false))),
                    Some(mut b) => {
                        out.push(("possible".into(), json!(true)));
                        let t0 = TICKS.load(Ordering::SeqCst);
                        let vb = b.next_u32();
                        out.push(("dup_reads".into(), json!(TICKS.load(Ordering::SeqCst) - t0)));
                        out.push(("dup_ret".into(), u32j(vb)));
                        let t1 = TICKS.load(Ordering::SeqCst);
                        let va = a.next_u32();
                        out.push(("orig_reads".into(), json!(TICKS.load(Ordering::SeqCst) - t1)));
                        out.push(("orig_ret".into(), u32j(va)));
                    }
                }
            }
            "jit_std_new" => {
                // JitterRng::new() with the platform timer: only "did it panic" and
                // the Ok/Err class are recorded; values are real entropy.
                match rand_jitter::JitterRng::new() {
                    Ok(mut r) => {
                        use rand_core::RngCore;
                        // a new generator owes nobody the half of a value (hook: the pending-half flag)
                        out.push(("half_after_new".into(), json!(r.verif_state().3)));
                        let _ = r.next_u64();
                        out.push(("ok".into(), json!(true)));
                    }
                    Err(e) => out.push(("err".into(), json!(format!("{:?}", e)))),
                }
            }
            "par_ctor" => {
                // C19: generators of one kind constructed AT THE SAME MOMENT on several threads (one per seed; "rounds" times),
                // or - "sequential": true - one after the other on this thread.  Per round and seed a digest of the first
                // outputs is recorded; the two ways must agree.
                let kind = op["kind"].as_str().unwrap().to_string();
                let seeds: Vec<Vec<u8>> = op["seeds"].as_array().unwrap().iter().map(json_bytes).collect();
                let rounds = op.get("rounds").and_then(|v| v.as_u64()).unwrap_or(4);
                let sequential = op.get("sequential").and_then(|v| v.as_bool()).unwrap_or(false);
                fn one(kind: &str, seed: &[u8]) -> u64 {
                    let mut h: u64 = 0xcbf29ce484222325;
                    if let Built::Ok(mut g) = construct(kind, Ctor::FromSeed(seed)) {
                        for _ in 0..6 {
                            let v = g.next_u64().unwrap_or(0);
                            h = (h ^ v).wrapping_mul(0x100000001b3);
                        }
                        let mut buf = [0u8; 9];
                        let _ = g.fill_bytes(&mut buf);
                        for &b in &buf {
                            h = (h ^ b as u64).wrapping_mul(0x100000001b3);
                        }
                    }
                    h
                }
                // every thread constructs `rounds` generators in a tight loop, choosing the seed by an LCG; what is recorded
                // is, per seed, the sorted set of distinct digests seen by anybody (one each, if construction is a function
                // of the seed)
                let nthreads = if sequential { 1 } else { op.get("threads").and_then(|v| v.as_u64()).unwrap_or(8) as usize };
                let barrier = Arc::new(std::sync::Barrier::new(nthreads));
                let lined_up = Arc::new(AtomicUsize::new(0));
                let seeds = Arc::new(seeds);
                let hs: Vec<_> = (0..nthreads)
                    .map(|t| {
                        let b = barrier.clone();
                        let lined_up = lined_up.clone();
                        let k = kind.clone();
                        let seeds = seeds.clone();
                        std::thread::spawn(move || {
                            let mut seen: Vec<Vec<u64>> = vec![Vec::new(); seeds.len()];
                            let mut x = 0xC0FFEEu32.wrapping_add(t as u32 * 7919);
                            b.wait();
                            // a spinning start line behind the barrier: all threads leave it within nanoseconds
                            lined_up.fetch_add(1, Ordering::SeqCst);
                            while lined_up.load(Ordering::SeqCst) < nthreads {
                                std::hint::spin_loop();
                            }
                            for n in 0..rounds {
                                x = x.wrapping_mul(1664525).wrapping_add(1013904223);
                                // every seed at least once per thread, then at random
                                let i = if (n as usize) < seeds.len() { n as usize } else { (x >> 16) as usize % seeds.len() };
                                let d = one(&k, &seeds[i]);
                                if !seen[i].contains(&d) && seen[i].len() < 4 {
                                    seen[i].push(d);
                                }
                            }
                            seen
                        })
                    })
                    .collect();
                let mut seen: Vec<Vec<u64>> = vec![Vec::new(); seeds.len()];
                for h in hs {
                    for (i, ds) in h.join().expect("par_ctor thread panicked").into_iter().enumerate() {
                        for d in ds {
                            if !seen[i].contains(&d) && seen[i].len() < 4 {
                                seen[i].push(d);
                            }
                        }
                    }
                }
                let mut all: Vec<Value> = Vec::new();
                for ds in seen.iter_mut() {
                    ds.sort();
                    all.push(Value::Array(ds.iter().map(|&d| u64j(d)).collect()));
                }
                out.push(("ret".into(), Value::Array(all)));
            }
            "jit_std_new_parallel" => {
                // many threads call JitterRng::new() at the same moment (meant as the first calls in the process: the
                // process-wide rounds cache is still empty); a panic in any of them is this operation's panic
                let n = op.get("threads").and_then(|v| v.as_u64()).unwrap_or(8) as usize;
                let barrier = Arc::new(std::sync::Barrier::new(n));
                let hs: Vec<_> = (0..n)
                    .map(|_| {
                        let b = barrier.clone();
                        std::thread::spawn(move || {
                            b.wait();
                            match rand_jitter::JitterRng::new() {
                                Ok(mut r) => {
                                    use rand_core::RngCore;
                                    let _ = r.next_u64();
                                    true
                                }
                                Err(_) => false,
                            }
                        })
                    })
                    .collect();
                let mut oks = 0;
                let mut panics = 0;
                for h in hs {
                    match h.join() {
                        Ok(true) => oks += 1,
                        Ok(false) => {}
                        Err(_) => panics += 1,
                    }
                }
                out.push(("ok_count".into(), json!(oks)));
                if panics > 0 {
                    panic!("{} of {} threads calling JitterRng::new() at once panicked", panics, n);
                }
            }
            // ---- background load for C19 ----
            "bg_start" => {
                let nthreads = op.get("threads").and_then(|v| v.as_u64()).unwrap_or(2);
                let kinds: Vec<String> = op["kinds"].as_array().unwrap().iter().map(|k| k.as_str().unwrap().to_string()).collect();
                for t in 0..nthreads {
                    let flag = Arc::new(AtomicBool::new(false));
                    let f2 = flag.clone();
                    let kinds = kinds.clone();
                    let h = std::thread::spawn(move || crate::bg::background(t, kinds, f2));
                    self.bg.push((flag, h));
                }
            }
            "bg_stop" => {
                let n = self.stop_bg();
                out.push(("bg_ops".into(), json!(n > 0)));
            }
            other => panic!("schedule error: unknown op {}", other),
        }
        out
    }
}

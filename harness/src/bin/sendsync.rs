//! C19, the compile-time clause: every generator type is Send and Sync (JitterRng<F> where its
//! timer is).  This binary only has to compile.
fn send_sync<T: Send + Sync>() {}
fn jitter<F: Fn() -> u64 + Send + Sync>(_f: &F) {
    send_sync::<rand_jitter::JitterRng<F>>();
}
fn main() {
    use rand_xoshiro::*;
    send_sync::<SplitMix64>();
    send_sync::<Xoroshiro64Star>();
    send_sync::<Xoroshiro64StarStar>();
    send_sync::<Xoroshiro128Plus>();
    send_sync::<Xoroshiro128PlusPlus>();
    send_sync::<Xoroshiro128StarStar>();
    send_sync::<Xoshiro128Plus>();
    send_sync::<Xoshiro128PlusPlus>();
    send_sync::<Xoshiro128StarStar>();
    send_sync::<Xoshiro256Plus>();
    send_sync::<Xoshiro256PlusPlus>();
    send_sync::<Xoshiro256StarStar>();
    send_sync::<Xoshiro512Plus>();
    send_sync::<Xoshiro512PlusPlus>();
    send_sync::<Xoshiro512StarStar>();
    send_sync::<rand_xorshift::XorShiftRng>();
    send_sync::<rand_hc::Hc128Rng>();
    send_sync::<rand_hc::Hc128Core>();
    send_sync::<rand_isaac::IsaacRng>();
    send_sync::<rand_isaac::Isaac64Rng>();
    send_sync::<rand_isaac::isaac::IsaacCore>();
    send_sync::<rand_isaac::isaac64::Isaac64Core>();
    let t = || 0u64;
    jitter(&t);
    println!("send+sync ok");
}

//! Instrumented collaborators: scripted byte sources (infallible and fallible)
//! and scripted, call-counting timers for JitterRng.
use rand_core::{RngCore, TryRngCore};
use std::fmt;
use std::sync::atomic::{AtomicU64, AtomicUsize, Ordering};
use std::sync::{Arc, Mutex};

/// Byte source with a cursor and a call counter.  Byte at absolute position p
/// is 0 for p < lead and script[(p - lead) mod len] afterwards.  Every delivery is logged as (method, bytes).
#[derive(Clone, Debug)]
pub struct ByteSource {
    pub script: Vec<u8>,
    /// the first `lead` bytes delivered are zero; the script starts after them
    pub lead: usize,
    pub pos: usize,
    pub calls: usize,
    pub log: Vec<(&'static str, usize)>,
}

impl ByteSource {
    pub fn new(script: Vec<u8>) -> Self {
        assert!(!script.is_empty());
        ByteSource {
            script,
            lead: 0,
            pos: 0,
            calls: 0,
            log: Vec::new(),
        }
    }
    fn take(&mut self, dest: &mut [u8]) {
        for d in dest.iter_mut() {
            *d = if self.pos < self.lead { 0 } else { self.script[(self.pos - self.lead) % self.script.len()] };
            self.pos += 1;
        }
    }
}

impl RngCore for ByteSource {
    fn next_u32(&mut self) -> u32 {
        self.calls += 1;
        self.log.push(("next_u32", 4));
        let mut b = [0u8; 4];
        self.take(&mut b);
        u32::from_le_bytes(b)
    }
    fn next_u64(&mut self) -> u64 {
        self.calls += 1;
        self.log.push(("next_u64", 8));
        let mut b = [0u8; 8];
        self.take(&mut b);
        u64::from_le_bytes(b)
    }
    fn fill_bytes(&mut self, dest: &mut [u8]) {
        self.calls += 1;
        self.log.push(("fill_bytes", dest.len()));
        self.take(dest);
    }
}

#[derive(Debug, Clone, PartialEq, Eq)]
pub struct SrcError {
    pub at_call: usize,
}
impl fmt::Display for SrcError {
    fn fmt(&self, f: &mut fmt::Formatter) -> fmt::Result {
        write!(f, "scripted source failure at call {}", self.at_call)
    }
}

/// Fallible byte source: call number `fail_at` (1-based, counting every try_*
/// call) writes `partial` bytes and then fails; later calls succeed again
/// unless `fail_from` is set, in which case every call from `fail_at` on fails.
#[derive(Clone, Debug)]
pub struct FallibleSource {
    pub inner: ByteSource,
    pub fail_at: Option<usize>,
    pub partial: usize,
    pub sticky: bool,
    pub failures: usize,
}

impl FallibleSource {
    fn failing(&self) -> bool {
        match self.fail_at {
            None => false,
            Some(k) => {
                let c = self.inner.calls + 1;
                if self.sticky {
                    c >= k
                } else {
                    c == k
                }
            }
        }
    }
}

impl TryRngCore for FallibleSource {
    type Error = SrcError;
    fn try_next_u32(&mut self) -> Result<u32, SrcError> {
        if self.failing() {
            self.inner.calls += 1;
            self.failures += 1;
            self.inner.log.push(("try_next_u32!", 0));
            return Err(SrcError {
                at_call: self.inner.calls,
            });
        }
        Ok(self.inner.next_u32())
    }
    fn try_next_u64(&mut self) -> Result<u64, SrcError> {
        if self.failing() {
            self.inner.calls += 1;
            self.failures += 1;
            self.inner.log.push(("try_next_u64!", 0));
            return Err(SrcError {
                at_call: self.inner.calls,
            });
        }
        Ok(self.inner.next_u64())
    }
    fn try_fill_bytes(&mut self, dst: &mut [u8]) -> Result<(), SrcError> {
        if self.failing() {
            self.inner.calls += 1;
            self.failures += 1;
            let p = self.partial.min(dst.len());
            self.inner.take(&mut dst[..p]);
            self.inner.log.push(("try_fill_bytes!", p));
            return Err(SrcError {
                at_call: self.inner.calls,
            });
        }
        self.inner.fill_bytes(dst);
        Ok(())
    }
}

/// State of one scripted timer cursor.  Reading number i (0-based) is
/// script[i] while i < len; afterwards the previous reading plus
/// cont[(i-len) mod cont.len()] (wrapping).  Every reading handed out is
/// appended to `log` until drained, so each operation's consumption is exact.
pub struct TimerState {
    pub script: Arc<Vec<u64>>,
    pub cont: Arc<Vec<u64>>,
    pub pos: AtomicUsize,
    pub last: AtomicU64,
    pub log: Mutex<Vec<u64>>,
    /// the read with this index fails: the timer closure panics instead of returning (usize::MAX: never)
    pub fault_at: AtomicUsize,
}

impl TimerState {
    pub fn read(&self) -> u64 {
        let i = self.pos.fetch_add(1, Ordering::SeqCst);
        if i == self.fault_at.load(Ordering::SeqCst) {
            self.fault_at.store(usize::MAX, Ordering::SeqCst);
            panic!("scripted timer fault");
        }
        let v = if i < self.script.len() {
            self.script[i]
        } else {
            let d = self.cont[(i - self.script.len()) % self.cont.len()];
            self.last.load(Ordering::SeqCst).wrapping_add(d)
        };
        self.last.store(v, Ordering::SeqCst);
        self.log.lock().unwrap().push(v);
        v
    }
    pub fn drain(&self) -> Vec<u64> {
        std::mem::take(&mut *self.log.lock().unwrap())
    }
}

pub type Registry = Arc<Mutex<Vec<Arc<TimerState>>>>;

/// Captured by value in the timer closure; its Clone deep-copies the cursor
/// and registers the copy, so a cloned JitterRng gets its own observable cursor.
pub struct Cursor {
    pub st: Arc<TimerState>,
    pub reg: Registry,
}

impl Clone for Cursor {
    fn clone(&self) -> Self {
        let st = Arc::new(TimerState {
            script: self.st.script.clone(),
            cont: self.st.cont.clone(),
            pos: AtomicUsize::new(self.st.pos.load(Ordering::SeqCst)),
            last: AtomicU64::new(self.st.last.load(Ordering::SeqCst)),
            log: Mutex::new(Vec::new()),
            fault_at: AtomicUsize::new(usize::MAX),
        });
        self.reg.lock().unwrap().push(st.clone());
        Cursor {
            st,
            reg: self.reg.clone(),
        }
    }
}

pub fn new_cursor(script: Vec<u64>, cont: Vec<u64>, reg: &Registry) -> Cursor {
    let cont = if cont.is_empty() { vec![1] } else { cont };
    let st = Arc::new(TimerState {
        script: Arc::new(script),
        cont: Arc::new(cont),
        pos: AtomicUsize::new(0),
        last: AtomicU64::new(0),
        log: Mutex::new(Vec::new()),
            fault_at: AtomicUsize::new(usize::MAX),
    });
    reg.lock().unwrap().push(st.clone());
    Cursor {
        st,
        reg: reg.clone(),
    }
}

pub fn make_timer(c: Cursor) -> impl Fn() -> u64 + Send + Sync + Clone {
    // capture the whole Cursor (edition-2021 closures would otherwise capture only
    // the field `c.st`, and the closure's Clone would share the cursor)
    move || {
        let whole: &Cursor = &c;
        whole.st.read()
    }
}

//! Unscripted background load (C19): other threads construct and drive
//! generators of the same kinds with other seeds (including the all-zero seed
//! and seed_from_u64(0)) while the scripted instances run.  Nothing it computes
//! is checked; it exists to disturb any process-wide or thread-local cache.
use crate::dynrng::*;
use std::sync::atomic::{AtomicBool, Ordering};
use std::sync::Arc;

pub fn background(t: u64, kinds: Vec<String>, stop: Arc<AtomicBool>) -> u64 {
    let mut n = 0u64;
    let mut x = 0x9E3779B97F4A7C15u64.wrapping_mul(t + 1);
    while !stop.load(Ordering::SeqCst) {
        for k in &kinds {
            if k == "JitterRng" {
                // an unscripted JitterRng over its own counter timer (irregular increments)
                let c = std::sync::atomic::AtomicU64::new(x);
                let step = std::sync::atomic::AtomicU64::new(1);
                let mut j = rand_jitter::JitterRng::new_with_timer(move || {
                    let s = step.load(Ordering::Relaxed).wrapping_mul(6364136223846793005).wrapping_add(1442695040888963407);
                    step.store(s, Ordering::Relaxed);
                    let v = c.load(Ordering::Relaxed).wrapping_add(1 + (s >> 58));
                    c.store(v, Ordering::Relaxed);
                    v
                });
                j.set_rounds(2);
                use rand_core::RngCore;
                let _ = j.next_u32();
                let _ = j.next_u64();
                let mut buf = [0u8; 13];
                j.fill_bytes(&mut buf);
                let _ = j.timer_stats(true);
                if n % 16 == 0 {
                    let _ = j.test_timer();
                }
                n += 1;
                continue;
            }
            x = x.wrapping_mul(6364136223846793005).wrapping_add(1442695040888963407);
            let b = match n % 3 {
                0 => construct(k, Ctor::SeedFromU64(x)),
                1 => construct(k, Ctor::SeedFromU64(0)),
                _ => {
                    let len = match k.as_str() {
                        "Xoroshiro64Star" | "Xoroshiro64StarStar" | "SplitMix64" => 8,
                        "Xoroshiro128Plus" | "Xoroshiro128PlusPlus" | "Xoroshiro128StarStar"
                        | "Xoshiro128Plus" | "Xoshiro128PlusPlus" | "Xoshiro128StarStar" | "XorShiftRng" => 16,
                        "Xoshiro512Plus" | "Xoshiro512PlusPlus" | "Xoshiro512StarStar" => 64,
                        _ => 32,
                    };
                    construct(k, Ctor::FromSeed(&vec![0u8; len]))
                }
            };
            if let Built::Ok(mut g) = b {
                let _ = g.next_u32();
                let _ = g.next_u64();
                let mut buf = [0u8; 13];
                let _ = g.fill_bytes(&mut buf);
                let _ = g.jump();
                let _ = g.generate();
                if let Some(mut c) = g.clone_box() {
                    let _ = c.next_u64();
                }
            }
            n += 1;
        }
    }
    n
}

//! Uniform dynamic interface over every generator type of the five crates.
//! Nothing here knows what the right answers are: it only calls the public
//! API of the real types and reports what came back.
use crate::sources::{ByteSource, FallibleSource, SrcError};
use crate::words::*;
use rand_core::block::BlockRngCore;
use rand_core::{RngCore, SeedableRng};
use serde_json::{json, Value};
use std::any::Any;

pub trait Dyn {
    fn kind(&self) -> &'static str;
    fn as_any(&self) -> &dyn Any;
    fn next_u32(&mut self) -> Option<u32> {
        None
    }
    fn next_u64(&mut self) -> Option<u64> {
        None
    }
    fn fill_bytes(&mut self, _d: &mut [u8]) -> bool {
        false
    }
    /// direct BlockRngCore::generate on a bare core: the block as words
    fn generate(&mut self) -> Option<Value> {
        None
    }
    fn clone_box(&self) -> Option<Box<dyn Dyn>> {
        None
    }
    /// Clone::clone_from(self, other): overwrite self with a copy of other (same concrete type)
    fn clone_from_dyn(&mut self, _o: &dyn Dyn) -> bool {
        false
    }
    fn eq_dyn(&self, _o: &dyn Dyn) -> Option<bool> {
        None
    }
    fn ser_bincode(&self) -> Option<Vec<u8>> {
        None
    }
    fn ser_json(&self) -> Option<String> {
        None
    }
    fn json_value_roundtrip(&self) -> Option<bool> {
        None
    }
    fn debug(&self) -> (String, String);
    fn jump(&mut self) -> bool {
        false
    }
    fn long_jump(&mut self) -> bool {
        false
    }
    /// cheap observation of the state after an operation (never an oracle)
    fn obs(&self) -> Value {
        Value::Null
    }
    /// jitter only
    fn jitter(&mut self) -> Option<&mut dyn JitterOps> {
        None
    }
}

pub trait JitterOps {
    fn set_rounds(&mut self, r: u8);
    fn timer_stats(&mut self, var: bool) -> i64;
    /// Err: the variant's name and the text the error is displayed with
    fn test_timer(&mut self) -> Result<u8, (String, String)>;
    fn set_pool(&mut self, p: u64);
    fn stir(&mut self);
    fn drain_reads(&self) -> Vec<u64>;
    fn pool(&self) -> u64;
    fn cursor_pos(&self) -> usize;
    fn seek(&self, pos: usize);
    /// the timer's read number `after` from now (0 = the next one) panics instead of returning
    fn arm_fault(&self, after: usize);
}

/// parse "index: N" / "half_used: b" out of BlockRng's Debug text; None if absent
pub fn parse_debug_pos(text: &str) -> (Option<u64>, Option<bool>, Option<u64>) {
    fn after<'a>(t: &'a str, key: &str) -> Option<&'a str> {
        t.find(key).map(|i| &t[i + key.len()..])
    }
    let num = |s: &str| -> Option<u64> {
        let d: String = s
            .trim_start()
            .chars()
            .take_while(|c| c.is_ascii_digit())
            .collect();
        d.parse().ok()
    };
    let idx = after(text, "index:").and_then(num);
    let len = after(text, "result_len:").and_then(num);
    let half = after(text, "half_used:").map(|s| s.trim_start().starts_with("true"));
    (idx, half, len)
}

fn seed_of<R: SeedableRng>(bytes: &[u8]) -> Option<R::Seed> {
    let mut s = R::Seed::default();
    if s.as_mut().len() != bytes.len() {
        return None;
    }
    s.as_mut().copy_from_slice(bytes);
    Some(s)
}

/// The results buffer handed to BlockRngCore::generate holds OTHER old contents on every call: generate overwrites
/// all of it, so what it held before is no input.
static GARBAGE: std::sync::atomic::AtomicU64 = std::sync::atomic::AtomicU64::new(0x243F6A8885A308D3);
fn garbage64(r: &mut [u64]) {
    let mut x = GARBAGE.fetch_add(0x9E3779B97F4A7C15, Ordering::Relaxed);
    for w in r.iter_mut() {
        x ^= x << 13;
        x ^= x >> 7;
        x ^= x << 17;
        *w = x;
    }
}
fn garbage32(r: &mut [u32]) {
    let mut x = GARBAGE.fetch_add(0x9E3779B97F4A7C15, Ordering::Relaxed);
    for w in r.iter_mut() {
        x ^= x << 13;
        x ^= x >> 7;
        x ^= x << 17;
        *w = (x >> 16) as u32;
    }
}

static ROUTE: std::sync::atomic::AtomicUsize = std::sync::atomic::AtomicUsize::new(0);
/// alternates between the two call routes (see common_rng_methods)
pub fn via_trait() -> bool {
    ROUTE.fetch_add(1, Ordering::Relaxed) % 2 == 0
}

macro_rules! common_rng_methods {
    ($name:expr) => {
        fn kind(&self) -> &'static str {
            $name
        }
        fn as_any(&self) -> &dyn Any {
            self
        }
        // Two call routes, taken alternately: through the RngCore trait explicitly (what generic code, dyn RngCore and
        // the TryRngCore adapters reach) and by method-call syntax on the concrete type (which an inherent method of
        // the same name would shadow).  Both are the type's next_u32 / next_u64 / fill_bytes.
        fn next_u32(&mut self) -> Option<u32> {
            Some(if via_trait() { RngCore::next_u32(&mut self.0) } else { self.0.next_u32() })
        }
        fn next_u64(&mut self) -> Option<u64> {
            Some(if via_trait() { RngCore::next_u64(&mut self.0) } else { self.0.next_u64() })
        }
        fn fill_bytes(&mut self, d: &mut [u8]) -> bool {
            if via_trait() {
                RngCore::fill_bytes(&mut self.0, d);
            } else {
                self.0.fill_bytes(d);
            }
            true
        }
        fn clone_box(&self) -> Option<Box<dyn Dyn>> {
            Some(Box::new(Self(self.0.clone())))
        }
        fn clone_from_dyn(&mut self, o: &dyn Dyn) -> bool {
            match o.as_any().downcast_ref::<Self>() {
                Some(x) => {
                    self.0.clone_from(&x.0);
                    true
                }
                None => false,
            }
        }
        fn debug(&self) -> (String, String) {
            (format!("{:?}", self.0), format!("{:#?}", self.0))
        }
    };
}
/// `==` where the type provides it, decided at compile time per concrete type (autoref specialisation): a type that
/// gains or loses a PartialEq impl needs no change here.
pub struct EqProbe<'a, T>(pub &'a T, pub &'a T);
pub trait EqYes {
    fn maybe_eq(&self) -> Option<bool>;
}
impl<'a, T: PartialEq> EqYes for EqProbe<'a, T> {
    fn maybe_eq(&self) -> Option<bool> {
        // both operators, in both directions: they are one relation (a `ne` overridden inconsistently with `eq`, or
        // an asymmetric `eq`, is recorded as a panic of the comparison so that it cannot go unnoticed)
        let e = self.0 == self.1;
        if (self.0 != self.1) == e || (self.1 == self.0) != e {
            panic!("== / != are inconsistent: a == b is {}, a != b is {}, b == a is {}", e, self.0 != self.1, self.1 == self.0);
        }
        Some(e)
    }
}
pub trait EqNo {
    fn maybe_eq(&self) -> Option<bool>;
}
impl<'a, T> EqNo for &EqProbe<'a, T> {
    fn maybe_eq(&self) -> Option<bool> {
        None
    }
}
/// a by-value duplicate where the type is Copy, decided at compile time like `EqProbe`
pub struct CopyProbe<'a, T>(pub &'a T);
pub trait CopyYes<T> {
    fn maybe_copy(&self) -> Option<T>;
}
impl<'a, T: Copy> CopyYes<T> for CopyProbe<'a, T> {
    fn maybe_copy(&self) -> Option<T> {
        Some(*self.0)
    }
}
pub trait CopyNo<T> {
    fn maybe_copy(&self) -> Option<T>;
}
impl<'a, T> CopyNo<T> for &CopyProbe<'a, T> {
    fn maybe_copy(&self) -> Option<T> {
        None
    }
}
/// `Default::default()` where the type provides it, decided at compile time like `EqProbe`
pub struct DefProbe<T>(pub std::marker::PhantomData<T>);
pub trait DefYes<T> {
    fn maybe_default(&self) -> Option<T>;
}
impl<T: Default> DefYes<T> for DefProbe<T> {
    fn maybe_default(&self) -> Option<T> {
        Some(T::default())
    }
}
pub trait DefNo<T> {
    fn maybe_default(&self) -> Option<T>;
}
impl<T> DefNo<T> for &DefProbe<T> {
    fn maybe_default(&self) -> Option<T> {
        None
    }
}
macro_rules! eq_method {
    () => {
        fn eq_dyn(&self, o: &dyn Dyn) -> Option<bool> {
            match o.as_any().downcast_ref::<Self>() {
                Some(x) => (&EqProbe(&self.0, &x.0)).maybe_eq(),
                None => None,
            }
        }
    };
}
macro_rules! serde_methods {
    () => {
        #[cfg(feature = "serde1")]
        fn ser_bincode(&self) -> Option<Vec<u8>> {
            bincode::serialize(&self.0).ok()
        }
        #[cfg(feature = "serde1")]
        fn ser_json(&self) -> Option<String> {
            serde_json::to_string(&self.0).ok()
        }
        #[cfg(feature = "serde1")]
        fn json_value_roundtrip(&self) -> Option<bool> {
            Some(json_value_roundtrip(&self.0))
        }
    };
}
/// the snapshot as a `serde_json::Value` tree (what a generator inside a tagged enum or a flattened record goes
/// through) and back: both directions succeed and the restored value serializes to the same text
#[cfg(feature = "serde1")]
pub fn json_value_roundtrip<T: serde::Serialize + serde::de::DeserializeOwned>(x: &T) -> bool {
    match serde_json::to_value(x) {
        Ok(v) => match serde_json::from_value::<T>(v) {
            Ok(y) => serde_json::to_string(&y).ok() == serde_json::to_string(x).ok(),
            Err(_) => false,
        },
        Err(_) => false,
    }
}

// ---- the xoshiro family, SplitMix64, XorShiftRng: plain-state generators ----
macro_rules! plain {
    ($w:ident, $ty:ty, $name:expr, $wbytes:expr, jump=$j:tt) => {
        pub struct $w(pub $ty);
        impl Dyn for $w {
            common_rng_methods!($name);
            eq_method!();
            serde_methods!();
            plain!(@jump $j);
            fn obs(&self) -> Value {
                #[cfg(feature = "serde1")]
                {
                    if let Ok(b) = bincode::serialize(&self.0) {
                        return json!({ "s": bytes_to_wordsj(&b, $wbytes) });
                    }
                }
                Value::Null
            }
        }
    };
    (@jump yes) => {
        fn jump(&mut self) -> bool { self.0.jump(); true }
        fn long_jump(&mut self) -> bool { self.0.long_jump(); true }
    };
    (@jump no) => {};
}

plain!(DXoroshiro64Star, rand_xoshiro::Xoroshiro64Star, "Xoroshiro64Star", 4, jump = no);
plain!(DXoroshiro64StarStar, rand_xoshiro::Xoroshiro64StarStar, "Xoroshiro64StarStar", 4, jump = no);
plain!(DXoroshiro128Plus, rand_xoshiro::Xoroshiro128Plus, "Xoroshiro128Plus", 8, jump = yes);
plain!(DXoroshiro128PlusPlus, rand_xoshiro::Xoroshiro128PlusPlus, "Xoroshiro128PlusPlus", 8, jump = yes);
plain!(DXoroshiro128StarStar, rand_xoshiro::Xoroshiro128StarStar, "Xoroshiro128StarStar", 8, jump = yes);
plain!(DXoshiro128Plus, rand_xoshiro::Xoshiro128Plus, "Xoshiro128Plus", 4, jump = yes);
plain!(DXoshiro128PlusPlus, rand_xoshiro::Xoshiro128PlusPlus, "Xoshiro128PlusPlus", 4, jump = yes);
plain!(DXoshiro128StarStar, rand_xoshiro::Xoshiro128StarStar, "Xoshiro128StarStar", 4, jump = yes);
plain!(DXoshiro256Plus, rand_xoshiro::Xoshiro256Plus, "Xoshiro256Plus", 8, jump = yes);
plain!(DXoshiro256PlusPlus, rand_xoshiro::Xoshiro256PlusPlus, "Xoshiro256PlusPlus", 8, jump = yes);
plain!(DXoshiro256StarStar, rand_xoshiro::Xoshiro256StarStar, "Xoshiro256StarStar", 8, jump = yes);
plain!(DXoshiro512Plus, rand_xoshiro::Xoshiro512Plus, "Xoshiro512Plus", 8, jump = yes);
plain!(DXoshiro512PlusPlus, rand_xoshiro::Xoshiro512PlusPlus, "Xoshiro512PlusPlus", 8, jump = yes);
plain!(DXoshiro512StarStar, rand_xoshiro::Xoshiro512StarStar, "Xoshiro512StarStar", 8, jump = yes);
plain!(DSplitMix64, rand_xoshiro::SplitMix64, "SplitMix64", 8, jump = no);
plain!(DXorShiftRng, rand_xorshift::XorShiftRng, "XorShiftRng", 4, jump = no);

// ---- buffered generators ----
fn block_obs(text: &str) -> Value {
    let (idx, half, len) = parse_debug_pos(text);
    let mut m = serde_json::Map::new();
    if let Some(i) = idx {
        m.insert("idx".into(), json!(i));
    }
    if let Some(h) = half {
        m.insert("half".into(), json!(h));
    }
    if let Some(l) = len {
        m.insert("len".into(), json!(l));
    }
    Value::Object(m)
}

pub struct DHc128Rng(pub rand_hc::Hc128Rng);
impl Dyn for DHc128Rng {
    common_rng_methods!("Hc128Rng");
    eq_method!();
    fn obs(&self) -> Value {
        block_obs(&format!("{:?}", self.0))
    }
}
pub struct DIsaacRng(pub rand_isaac::IsaacRng);
impl Dyn for DIsaacRng {
    common_rng_methods!("IsaacRng");
    eq_method!();
    serde_methods!();
    fn obs(&self) -> Value {
        block_obs(&format!("{:?}", self.0))
    }
}
pub struct DIsaac64Rng(pub rand_isaac::Isaac64Rng);
impl Dyn for DIsaac64Rng {
    common_rng_methods!("Isaac64Rng");
    eq_method!();
    serde_methods!();
    fn obs(&self) -> Value {
        block_obs(&format!("{:?}", self.0))
    }
}

// ---- bare cores: generate() only ----
macro_rules! core_common {
    ($name:expr) => {
        fn kind(&self) -> &'static str {
            $name
        }
        fn as_any(&self) -> &dyn Any {
            self
        }
        fn clone_box(&self) -> Option<Box<dyn Dyn>> {
            Some(Box::new(Self(self.0.clone())))
        }
        fn clone_from_dyn(&mut self, o: &dyn Dyn) -> bool {
            match o.as_any().downcast_ref::<Self>() {
                Some(x) => {
                    self.0.clone_from(&x.0);
                    true
                }
                None => false,
            }
        }
        fn debug(&self) -> (String, String) {
            (format!("{:?}", self.0), format!("{:#?}", self.0))
        }
    };
}
pub struct DHc128Core(pub rand_hc::Hc128Core);
impl Dyn for DHc128Core {
    core_common!("Hc128Core");
    eq_method!();
    fn generate(&mut self) -> Option<Value> {
        let mut r = [0u32; 16];
        garbage32(&mut r);
        self.0.generate(&mut r);
        Some(Value::Array(r.iter().map(|&x| u32j(x)).collect()))
    }
}
pub struct DIsaacCore(pub rand_isaac::isaac::IsaacCore);
impl Dyn for DIsaacCore {
    core_common!("IsaacCore");
    eq_method!();
    serde_methods!();
    fn generate(&mut self) -> Option<Value> {
        let mut r = <rand_isaac::isaac::IsaacCore as BlockRngCore>::Results::default();
        garbage32(r.as_mut());
        self.0.generate(&mut r);
        Some(Value::Array(r.as_ref().iter().map(|&x| u32j(x)).collect()))
    }
}
pub struct DIsaac64Core(pub rand_isaac::isaac64::Isaac64Core);
impl Dyn for DIsaac64Core {
    core_common!("Isaac64Core");
    eq_method!();
    serde_methods!();
    fn generate(&mut self) -> Option<Value> {
        let mut r = <rand_isaac::isaac64::Isaac64Core as BlockRngCore>::Results::default();
        garbage64(r.as_mut());
        self.0.generate(&mut r);
        Some(Value::Array(r.as_ref().iter().map(|&x| u64j(x)).collect()))
    }
}

// ---- IsaacArray<T>: the results buffer type with hand-written PartialEq and (de)serializer ----
type Arr32 = <rand_isaac::isaac::IsaacCore as BlockRngCore>::Results;
type Arr64 = <rand_isaac::isaac64::Isaac64Core as BlockRngCore>::Results;
macro_rules! arr_kind {
    ($w:ident, $ty:ty, $name:expr, $conv:expr) => {
        pub struct $w(pub $ty);
        impl Dyn for $w {
            fn kind(&self) -> &'static str {
                $name
            }
            fn as_any(&self) -> &dyn Any {
                self
            }
            fn clone_box(&self) -> Option<Box<dyn Dyn>> {
                Some(Box::new(Self(self.0.clone())))
            }
            eq_method!();
            serde_methods!();
            fn debug(&self) -> (String, String) {
                (String::new(), String::new())
            }
            fn obs(&self) -> Value {
                json!({ "arr": Value::Array(self.0.as_ref().iter().map(|&x| $conv(x)).collect()) })
            }
        }
    };
}
arr_kind!(DIsaacArr32, Arr32, "IsaacArrayU32", u32j);
arr_kind!(DIsaacArr64, Arr64, "IsaacArrayU64", u64j);

// ---- JitterRng over a scripted timer ----
use crate::sources::{make_timer, Cursor, TimerState};
use std::sync::atomic::Ordering;
use std::sync::Arc;

pub struct DJitter<F: Fn() -> u64 + Send + Sync + Clone> {
    pub rng: rand_jitter::JitterRng<F>,
    pub cur: Arc<TimerState>,
}

pub fn new_jitter(c: Cursor) -> Box<dyn Dyn> {
    let cur = c.st.clone();
    let rng = rand_jitter::JitterRng::new_with_timer(make_timer(c));
    Box::new(DJitter { rng, cur })
}

impl<F: Fn() -> u64 + Send + Sync + Clone + 'static> Dyn for DJitter<F> {
    fn kind(&self) -> &'static str {
        "JitterRng"
    }
    fn as_any(&self) -> &dyn Any {
        self
    }
    fn next_u32(&mut self) -> Option<u32> {
        Some(self.rng.next_u32())
    }
    fn next_u64(&mut self) -> Option<u64> {
        Some(self.rng.next_u64())
    }
    fn fill_bytes(&mut self, d: &mut [u8]) -> bool {
        self.rng.fill_bytes(d);
        true
    }
    fn clone_box(&self) -> Option<Box<dyn Dyn>> {
        // the timer closure's Clone registers a fresh cursor: it is the last
        // one in the registry after the clone
        let reg = self.cur_registry();
        let before = reg.lock().unwrap().len();
        let rng = self.rng.clone();
        let g = reg.lock().unwrap();
        if g.len() != before + 1 {
            // the clone did not clone the timer exactly once: report as absent
            return None;
        }
        let cur = g[g.len() - 1].clone();
        Some(Box::new(DJitter { rng, cur }))
    }
    fn clone_from_dyn(&mut self, o: &dyn Dyn) -> bool {
        let other = match o.as_any().downcast_ref::<Self>() {
            Some(x) => x,
            None => return false,
        };
        // the timer closure is cloned (its Clone registers a fresh cursor): adopt the newest registered cursor
        let reg = self.cur_registry();
        let before = reg.lock().unwrap().len();
        self.rng.clone_from(&other.rng);
        let g = reg.lock().unwrap();
        if g.len() != before + 1 {
            return false;
        }
        self.cur = g[g.len() - 1].clone();
        true
    }
    fn debug(&self) -> (String, String) {
        (format!("{:?}", self.rng), format!("{:#?}", self.rng))
    }
    fn obs(&self) -> Value {
        let (pool, rounds, mpi, half) = self.rng.verif_state();
        json!({"pool": u64j(pool), "rounds": rounds, "mpi": mpi, "half": half,
               "cur": self.cur.pos.load(Ordering::SeqCst)})
    }
    fn jitter(&mut self) -> Option<&mut dyn JitterOps> {
        Some(self)
    }
}

impl<F: Fn() -> u64 + Send + Sync + Clone> DJitter<F> {
    fn cur_registry(&self) -> crate::sources::Registry {
        crate::exec::global_registry()
    }
}

impl<F: Fn() -> u64 + Send + Sync + Clone + 'static> JitterOps for DJitter<F> {
    fn set_rounds(&mut self, r: u8) {
        self.rng.set_rounds(r)
    }
    fn timer_stats(&mut self, var: bool) -> i64 {
        self.rng.timer_stats(var)
    }
    fn test_timer(&mut self) -> Result<u8, (String, String)> {
        self.rng.test_timer().map_err(|e| (format!("{:?}", e), format!("{}", e)))
    }
    fn set_pool(&mut self, p: u64) {
        self.rng.verif_set_pool(p)
    }
    fn stir(&mut self) {
        self.rng.verif_stir()
    }
    fn drain_reads(&self) -> Vec<u64> {
        self.cur.drain()
    }
    fn pool(&self) -> u64 {
        self.rng.verif_state().0
    }
    fn cursor_pos(&self) -> usize {
        self.cur.pos.load(Ordering::SeqCst)
    }
    fn seek(&self, pos: usize) {
        self.cur.pos.store(pos, Ordering::SeqCst)
    }
    fn arm_fault(&self, after: usize) {
        self.cur.fault_at.store(self.cur.pos.load(Ordering::SeqCst) + after, Ordering::SeqCst)
    }
}

// ---- constructors by kind name ----
pub enum Ctor<'a> {
    FromSeed(&'a [u8]),
    SeedFromU64(u64),
    FromRng(&'a mut ByteSource),
    TryFromRng(&'a mut FallibleSource),
    /// `Default::default()`, if the type has it
    Default,
    #[cfg(feature = "serde1")]
    DeBincode(&'a [u8]),
    #[cfg(feature = "serde1")]
    DeJson(&'a str),
    /// the generator as the middle field of a (u32, generator, u64) tuple in bincode
    #[cfg(feature = "serde1")]
    DeEmbedded(&'a [u8]),
}
pub const EMB_BEFORE: u32 = 0x5EED_C0DE;
pub const EMB_AFTER: u64 = 0x0123_4567_89AB_CDEF;

pub enum Built {
    Ok(Box<dyn Dyn>),
    SrcErr(SrcError),
    Unsupported(String),
}

macro_rules! build {
    ($w:ident, $ty:ty, $c:expr, serde=$s:tt) => {{
        match $c {
            Ctor::FromSeed(b) => match seed_of::<$ty>(b) {
                Some(s) => Built::Ok(Box::new($w(<$ty>::from_seed(s)))),
                None => Built::Unsupported("seed length".into()),
            },
            Ctor::SeedFromU64(x) => Built::Ok(Box::new($w(<$ty>::seed_from_u64(x)))),
            Ctor::FromRng(src) => Built::Ok(Box::new($w(<$ty>::from_rng(src)))),
            Ctor::TryFromRng(src) => match <$ty>::try_from_rng(src) {
                Ok(r) => Built::Ok(Box::new($w(r))),
                Err(e) => Built::SrcErr(e),
            },
            Ctor::Default => match (&DefProbe::<$ty>(std::marker::PhantomData)).maybe_default() {
                Some(r) => Built::Ok(Box::new($w(r))),
                None => Built::Unsupported("no Default".into()),
            },
            #[cfg(feature = "serde1")]
            Ctor::DeBincode(b) => build!(@debin $w, $ty, b, $s),
            #[cfg(feature = "serde1")]
            Ctor::DeJson(t) => build!(@dejson $w, $ty, t, $s),
            #[cfg(feature = "serde1")]
            Ctor::DeEmbedded(b) => build!(@deemb $w, $ty, b, $s),
        }
    }};
    (@debin $w:ident, $ty:ty, $b:expr, yes) => {
        match bincode::deserialize::<$ty>($b) {
            Ok(r) => Built::Ok(Box::new($w(r))),
            Err(e) => Built::Unsupported(format!("deserialize: {}", e)),
        }
    };
    (@deemb $w:ident, $ty:ty, $b:expr, yes) => {
        match bincode::deserialize::<(u32, $ty, u64)>($b) {
            Ok((a, r, z)) if a == EMB_BEFORE && z == EMB_AFTER => Built::Ok(Box::new($w(r))),
            Ok((a, _, z)) => Built::Unsupported(format!("deserialize: the values around the generator came back as {:#x}, {:#x}", a, z)),
            Err(e) => Built::Unsupported(format!("deserialize: {}", e)),
        }
    };
    (@deemb $w:ident, $ty:ty, $b:expr, no) => {{ let _ = $b; Built::Unsupported("no serde".into()) }};
    (@debin $w:ident, $ty:ty, $b:expr, no) => {{ let _ = $b; Built::Unsupported("no serde".into()) }};
    (@dejson $w:ident, $ty:ty, $t:expr, yes) => {
        match serde_json::from_str::<$ty>($t) {
            Ok(r) => Built::Ok(Box::new($w(r))),
            Err(e) => Built::Unsupported(format!("deserialize: {}", e)),
        }
    };
    (@dejson $w:ident, $ty:ty, $t:expr, no) => {{ let _ = $t; Built::Unsupported("no serde".into()) }};
}

pub fn construct(kind: &str, c: Ctor) -> Built {
    use rand_xoshiro::*;
    match kind {
        "Xoroshiro64Star" => build!(DXoroshiro64Star, Xoroshiro64Star, c, serde = yes),
        "Xoroshiro64StarStar" => build!(DXoroshiro64StarStar, Xoroshiro64StarStar, c, serde = yes),
        "Xoroshiro128Plus" => build!(DXoroshiro128Plus, Xoroshiro128Plus, c, serde = yes),
        "Xoroshiro128PlusPlus" => build!(DXoroshiro128PlusPlus, Xoroshiro128PlusPlus, c, serde = yes),
        "Xoroshiro128StarStar" => build!(DXoroshiro128StarStar, Xoroshiro128StarStar, c, serde = yes),
        "Xoshiro128Plus" => build!(DXoshiro128Plus, Xoshiro128Plus, c, serde = yes),
        "Xoshiro128PlusPlus" => build!(DXoshiro128PlusPlus, Xoshiro128PlusPlus, c, serde = yes),
        "Xoshiro128StarStar" => build!(DXoshiro128StarStar, Xoshiro128StarStar, c, serde = yes),
        "Xoshiro256Plus" => build!(DXoshiro256Plus, Xoshiro256Plus, c, serde = yes),
        "Xoshiro256PlusPlus" => build!(DXoshiro256PlusPlus, Xoshiro256PlusPlus, c, serde = yes),
        "Xoshiro256StarStar" => build!(DXoshiro256StarStar, Xoshiro256StarStar, c, serde = yes),
        "Xoshiro512Plus" => build!(DXoshiro512Plus, Xoshiro512Plus, c, serde = yes),
        "Xoshiro512PlusPlus" => build!(DXoshiro512PlusPlus, Xoshiro512PlusPlus, c, serde = yes),
        "Xoshiro512StarStar" => build!(DXoshiro512StarStar, Xoshiro512StarStar, c, serde = yes),
        "SplitMix64" => build!(DSplitMix64, SplitMix64, c, serde = yes),
        "XorShiftRng" => build!(DXorShiftRng, rand_xorshift::XorShiftRng, c, serde = yes),
        "Hc128Rng" => build!(DHc128Rng, rand_hc::Hc128Rng, c, serde = no),
        "IsaacRng" => build!(DIsaacRng, rand_isaac::IsaacRng, c, serde = yes),
        "Isaac64Rng" => build!(DIsaac64Rng, rand_isaac::Isaac64Rng, c, serde = yes),
        "Hc128Core" => build!(DHc128Core, rand_hc::Hc128Core, c, serde = no),
        "IsaacCore" => build!(DIsaacCore, rand_isaac::isaac::IsaacCore, c, serde = yes),
        "Isaac64Core" => build!(DIsaac64Core, rand_isaac::isaac64::Isaac64Core, c, serde = yes),
        #[cfg(feature = "serde1")]
        "IsaacArrayU32" => match c {
            Ctor::DeBincode(b) => match bincode::deserialize::<Arr32>(b) {
                Ok(r) => Built::Ok(Box::new(DIsaacArr32(r))),
                Err(e) => Built::Unsupported(format!("deserialize: {}", e)),
            },
            Ctor::DeJson(t) => match serde_json::from_str::<Arr32>(t) {
                Ok(r) => Built::Ok(Box::new(DIsaacArr32(r))),
                Err(e) => Built::Unsupported(format!("deserialize: {}", e)),
            },
            _ => Built::Unsupported("IsaacArray is built from an image only".into()),
        },
        #[cfg(feature = "serde1")]
        "IsaacArrayU64" => match c {
            Ctor::DeBincode(b) => match bincode::deserialize::<Arr64>(b) {
                Ok(r) => Built::Ok(Box::new(DIsaacArr64(r))),
                Err(e) => Built::Unsupported(format!("deserialize: {}", e)),
            },
            Ctor::DeJson(t) => match serde_json::from_str::<Arr64>(t) {
                Ok(r) => Built::Ok(Box::new(DIsaacArr64(r))),
                Err(e) => Built::Unsupported(format!("deserialize: {}", e)),
            },
            _ => Built::Unsupported("IsaacArray is built from an image only".into()),
        },
        _ => Built::Unsupported(format!("unknown kind {}", kind)),
    }
}

//! vh — conformance harness for /verif: executes schedules on the real
//! generator types of /repo and records traces for TLC.
mod bg;
mod dynrng;
mod exec;
mod sources;
mod words;

use serde_json::Value;
use std::io::{BufRead, BufReader, BufWriter, Write};

fn usage() -> ! {
    eprintln!("usage: vh drive --in SCHEDULE.ndjson --out TRACE.ndjson [--threads N]\n       vh config");
    std::process::exit(2)
}

fn main() {
    // panics of code under test are caught and recorded; keep stderr quiet
    std::panic::set_hook(Box::new(|info| {
        if let Some(l) = info.location() {
            if let Ok(mut g) = exec::LAST_PANIC_AT.lock() {
                *g = Some(format!("{}:{}", l.file(), l.line()));
            }
        }
    }));
    let args: Vec<String> = std::env::args().collect();
    if args.len() < 2 {
        usage();
    }
    match args[1].as_str() {
        "config" => {
            println!(
                "{{\"opt\":{},\"overflow_checks\":{},\"debug_assertions\":{},\"serde\":{}}}",
                option_env!("VH_PROFILE").unwrap_or("?").len(),
                overflow_checks_on(),
                cfg!(debug_assertions),
                cfg!(feature = "serde1")
            );
        }
        "drive" => {
            let mut inp = None;
            let mut outp = None;
            let mut i = 2;
            while i < args.len() {
                match args[i].as_str() {
                    "--in" => {
                        inp = Some(args[i + 1].clone());
                        i += 2
                    }
                    "--out" => {
                        outp = Some(args[i + 1].clone());
                        i += 2
                    }
                    _ => usage(),
                }
            }
            let (inp, outp) = (inp.unwrap_or_else(|| usage()), outp.unwrap_or_else(|| usage()));
            drive(&inp, &outp);
        }
        _ => usage(),
    }
}

/// does `255u8 + 1` trap in this build?  (observed, not assumed)
fn overflow_checks_on() -> bool {
    let x: u8 = std::hint::black_box(255);
    std::panic::catch_unwind(|| x + std::hint::black_box(1)).is_err()
}

struct Moved(exec::Exec);
// The wrapper asserts Send for the harness' own bookkeeping only; whether the generator types
// are Send/Sync is checked separately by the `sendsync` binary.
unsafe impl Send for Moved {}

/// A persistent OS thread that executes ops on whatever instances are moved to it.
struct Worker {
    tx: std::sync::mpsc::Sender<(Moved, Value)>,
    rx: std::sync::mpsc::Receiver<(Moved, Value)>,
}

fn spawn_worker() -> Worker {
    let (tx, wrx) = std::sync::mpsc::channel::<(Moved, Value)>();
    let (wtx, rx) = std::sync::mpsc::channel::<(Moved, Value)>();
    std::thread::spawn(move || {
        while let Ok((mut mv, op)) = wrx.recv() {
            let ev = mv.0.step(&op);
            if wtx.send((mv, ev)).is_err() {
                break;
            }
        }
    });
    Worker { tx, rx }
}

/// rand_jitter is built with its optional `log` feature, and a logger is installed at the most verbose level: it
/// formats every record (so the arguments of every log statement in the crate are evaluated) and throws the text away.
struct EvalLogger;
impl log::Log for EvalLogger {
    fn enabled(&self, _: &log::Metadata) -> bool {
        true
    }
    fn log(&self, record: &log::Record) {
        use std::fmt::Write as _;
        let mut sink = String::new();
        let _ = write!(sink, "{}", record.args());
        std::hint::black_box(&sink);
    }
    fn flush(&self) {}
}
static EVAL_LOGGER: EvalLogger = EvalLogger;

fn drive(inp: &str, outp: &str) {
    let _ = log::set_logger(&EVAL_LOGGER);
    log::set_max_level(log::LevelFilter::Trace);
    let f = BufReader::new(std::fs::File::open(inp).expect("open schedule"));
    let mut w = BufWriter::new(std::fs::File::create(outp).expect("create trace"));
    let mut ex = exec::Exec::new();
    let mut workers: std::collections::HashMap<u64, Worker> = std::collections::HashMap::new();
    for line in f.lines() {
        let line = line.expect("read schedule");
        if line.trim().is_empty() {
            continue;
        }
        let op: Value = serde_json::from_str(&line).expect("schedule line is JSON");
        if op["op"] == "reset" {
            ex.reset();
            let mut ev = op.as_object().unwrap().clone();
            ev.insert("e".into(), Value::String("reset".into()));
            writeln!(w, "{}", Value::Object(ev)).unwrap();
            continue;
        }
        let ev = match op.get("th").and_then(|v| v.as_u64()) {
            None => ex.step(&op),
            Some(t) => {
                // run this op on persistent OS thread number t: every instance is moved there and back
                let wk = workers.entry(t).or_insert_with(spawn_worker);
                wk.tx.send((Moved(std::mem::take(&mut ex)), op.clone())).expect("worker alive");
                let (m, ev) = wk.rx.recv().expect("worker result");
                ex = m.0;
                ev
            }
        };
        writeln!(w, "{}", ev).unwrap();
        // one event per line on disk before the next op starts: if the code under test aborts the process
        // (a non-unwinding panic, a signal), everything up to the fatal op has been recorded
        w.flush().unwrap();
    }
    ex.reset();
    w.flush().unwrap();
}

-------------------------------- MODULE Pcg32 --------------------------------
(***************************************************************************)
(* rand_core 0.9's documented default SeedableRng::seed_from_u64: a PCG32   *)
(* (XSH-RR) stream started at the argument, 4 little-endian bytes per draw: *)
(*   state = state * 6364136223846793005 + 11634580027462260723;            *)
(*   xorshifted = (((state >> 18) ^ state) >> 27) as u32;                   *)
(*   rot = (state >> 59); out = xorshifted.rotate_right(rot)                *)
(***************************************************************************)
EXTENDS Words
PcgMul == <<\h7f2d, \h4c95, \hf42d, \h5851>>        \* 0x5851f42d4c957f2d
PcgInc == <<\h17f3, \h6fbe, \h54e4, \ha176>>        \* 0xa17654e46fbe17f3
PcgStep(st) == AddW(MulW(st, PcgMul), PcgInc)
PcgOut(st) ==
  LET xs == Lo32(ShrW(XorW(ShrW(st, 18), st), 27))
      rot == st[4] \div 2048                         \* state >> 59
  IN RotrW(xs, rot)
(* the first n bytes of the expansion of x (a u64) *)
PcgBytes(x, n) ==
  LET draws == (n + 3) \div 4
      r == FoldLeft(LAMBDA acc, i : LET s == PcgStep(acc[1]) IN <<s, acc[2] \o ToBytesLE(PcgOut(s))>>,
                    <<x, <<>>>>, Idx(draws))
  IN SubSeq(r[2], 1, n)
=============================================================================

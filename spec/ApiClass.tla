------------------------------ MODULE ApiClass ------------------------------
(* which clause of C05 each generator type claims (see module Stream) *)
ClassOf(k) ==
  CASE k \in {"Xoroshiro64Star", "Xoroshiro64StarStar", "Xoshiro128Plus", "Xoshiro128PlusPlus",
              "Xoshiro128StarStar", "XorShiftRng"}                          -> "w32"
    [] k \in {"Xoroshiro128Plus", "Xoshiro256Plus", "Xoshiro256PlusPlus", "Xoshiro256StarStar",
              "Xoshiro512Plus", "Xoshiro512PlusPlus", "Xoshiro512StarStar"} -> "hi"
    [] k \in {"Xoroshiro128PlusPlus", "Xoroshiro128StarStar"}               -> "lo"
    [] k = "SplitMix64"                                                     -> "sm"
    [] k = "JitterRng"                                                      -> "half"
    [] k \in {"Hc128Rng", "IsaacRng"}                                       -> "b32"
    [] k = "Isaac64Rng"                                                     -> "b64"
ApiKinds == {"Xoroshiro64Star", "Xoroshiro64StarStar", "Xoshiro128Plus", "Xoshiro128PlusPlus",
             "Xoshiro128StarStar", "XorShiftRng", "Xoroshiro128Plus", "Xoshiro256Plus",
             "Xoshiro256PlusPlus", "Xoshiro256StarStar", "Xoshiro512Plus", "Xoshiro512PlusPlus",
             "Xoshiro512StarStar", "Xoroshiro128PlusPlus", "Xoroshiro128StarStar", "SplitMix64",
             "JitterRng", "Hc128Rng", "IsaacRng", "Isaac64Rng"}
=============================================================================

--------------------------------- MODULE Rngs ---------------------------------
(***************************************************************************)
(* The composition: an executable model of one deterministic generator of  *)
(* the five crates - its published algorithm (module Alg), its seeding     *)
(* protocol (module Seeding) and its API projection (module Stream) -      *)
(* with concrete values.  A generator is a record                          *)
(*   [k    kind,                                                           *)
(*    s    algorithm state after `pos` native steps,                       *)
(*    last the native word number pos-1 (needed while its high half is     *)
(*         pending), alt  SplitMix64's 32-bit word of the same step,       *)
(*    pos, pend  the Stream state]                                         *)
(* Every public call is a total function of the generator and its          *)
(* arguments returning the bytes it yields and the next generator; nothing *)
(* here is specific to the Rust code's structure.  Trace_Full validates    *)
(* recorded executions of the real types against it without any twin.      *)
(***************************************************************************)
EXTENDS Alg, ApiClass, StreamOps

NewGen(k, s) == [k |-> k, s |-> s, last |-> <<>>, alt |-> <<>>, pos |-> 0, pend |-> 0]
GenFromSeed(k, seed) == NewGen(k, ResolveD(k, FromSeedD(SeedClass(k), seed)))
GenFromU64(k, x) == NewGen(k, SeedFromU64State(k, x))

(* native words number lo .. hi-1 (and SplitMix64's 32-bit words of the same steps), from state s at position lo *)
TakeWords(k, s, cnt) ==
  FoldLeft(LAMBDA acc, i :
             LET r == AlgNext(k, acc.s)
             IN [s |-> r[1], ws |-> Append(acc.ws, r[2]),
                 as |-> IF k = "SplitMix64" THEN Append(acc.as, SmNext32(acc.s)[2]) ELSE acc.as],
           [s |-> s, ws |-> <<>>, as |-> <<>>], Idx(cnt))

(* execute a call plan r = [o, p, h] of module Stream on generator G: <<bytes, G'>> *)
Exec(G, r) ==
  LET cnt == r.p - G.pos
      w == TakeWords(G.k, G.s, cnt)
      \* word number q (absolute): G.pos - 1 is the remembered one, G.pos + i the freshly generated ones
      nat(q) == IF q = G.pos - 1 THEN G.last ELSE w.ws[q - G.pos + 1]
      alt(q) == IF q = G.pos - 1 THEN G.alt ELSE w.as[q - G.pos + 1]
      one(d) == SubSeq(ToBytesLE(IF d[1] = 0 THEN nat(d[2]) ELSE alt(d[2])), d[3] + 1, d[4] + 1)
      bytes == FoldLeft(LAMBDA acc, d : acc \o one(d), <<>>, r.o)
  IN << bytes,
        [G EXCEPT !.s = w.s, !.pos = r.p, !.pend = r.h,
                  !.last = IF cnt > 0 THEN w.ws[cnt] ELSE G.last,
                  !.alt = IF cnt > 0 /\ G.k = "SplitMix64" THEN w.as[cnt] ELSE G.alt] >>

CallU32(G) == Exec(G, SU32(ClassOf(G.k), G.pos, G.pend))
CallU64(G) == Exec(G, SU64(ClassOf(G.k), G.pos, G.pend))
CallFill(G, n) == Exec(G, SFill(ClassOf(G.k), G.pos, G.pend, n))
(* jump / long_jump of the 12 xoshiro-family types: the state moves, the stream position is unaffected *)
CallJump(G, long) == [G EXCEPT !.s = IF long THEN XoLongJump(G.k, G.s) ELSE XoJump(G.k, G.s)]
=============================================================================

------------------------------- MODULE Jitter -------------------------------
(***************************************************************************)
(* Layer 1 reference: the Jitterentropy 2.1.0 collection procedure as      *)
(* documented in rand_jitter, as a pure function of the timer readings.    *)
(*                                                                         *)
(*  pool   : u64 (4 limbs)         the 64-bit entropy pool                 *)
(*  mpi    : 0..2047               memory-walk position (mem_prev_index)   *)
(*  ec     : [prev, ld, ld2w, ld2z] entropy-collector state of one         *)
(*           collection: previous time stamp, last delta (i32 as a 32-bit  *)
(*           two's complement word), last first-difference in the          *)
(*           mod-2^32 reading (32-bit word) and in the integer reading     *)
(*           (64-bit two's complement word, exact because |.| < 2^34)      *)
(*                                                                         *)
(* The differences of the 32-bit deltas are taken mod 2^32 (Mode "W"): that *)
(* is the crate's procedure wherever it was defined at all (overflow-       *)
(* unchecked builds before the fix, every build after it), and results and *)
(* reading counts are a function of the readings.  The integer reading     *)
(* (Mode "Z") differs only when a delta changes by 2^31 or more; it is kept *)
(* as an operator (the "dis" flag tells where the two part) but the API    *)
(* level no longer admits it.                                              *)
(***************************************************************************)
EXTENDS Words

(* ---- the LFSR fold: x^64 + x^61 + x^56 + x^31 + x^28 + x^23 + 1, time fed LSB first ---- *)
Rotl1(a) == << ((a[1] * 2) % B16) + (a[4] \div 32768), ((a[2] * 2) % B16) + (a[1] \div 32768),
               ((a[3] * 2) % B16) + (a[2] \div 32768), ((a[4] * 2) % B16) + (a[3] \div 32768) >>
LfsrBit(data, tbit) ==
  LET f == (tbit + BitAt(data, 63) + BitAt(data, 60) + BitAt(data, 55)
                 + BitAt(data, 30) + BitAt(data, 27) + BitAt(data, 22)) % 2
      d1 == << IF f = 1 THEN (IF data[1] % 2 = 0 THEN data[1] + 1 ELSE data[1] - 1) ELSE data[1],
               data[2], data[3], data[4] >>                     \* bit 0 ^= f
  IN Rotl1(d1)
Lfsr(pool, time) ==
  FoldLeft(LAMBDA d, i : LfsrBit(d, BitAt(time, i)), pool, TLCEval([i \in 1..64 |-> i - 1]))

(* ---- stir: pool ^= mixer(pool), mixer accumulated from the two SHA-1 constants ---- *)
StirConst == <<\hab89, \hefcd, \h2301, \h6745>>        \* 0x67452301efcdab89
StirInit  == <<\h5476, \h1032, \hdcfe, \h98ba>>        \* 0x98badcfe10325476
Stir(pool) ==
  LET mixer == FoldLeft(LAMBDA m, i : Rotl1(IF BitAt(pool, i) = 1 THEN XorW(m, StirConst) ELSE m),
                        StirInit, TLCEval([i \in 1..64 |-> i - 1]))
  IN XorW(pool, mixer)

Rotl7(pool) == RotlW(pool, 7)

(* ---- loop counts and the memory walk ---- *)
Nib(l) == ((l % 16) ^^ ((l \div 16) % 16)) ^^ (((l \div 256) % 16) ^^ (l \div 4096))
Fold4(x) == (Nib(x[1]) ^^ Nib(x[2])) ^^ (Nib(x[3]) ^^ Nib(x[4]))      \* 64 bits folded to 4
LoopCnt(reading, pool) == Fold4(XorW(reading, pool))
MemWalk(mpi, cnt) == (mpi + cnt * 31) % 2048                       \* cnt steps of +31 mod 2048

(* ---- deltas ---- *)
Delta32(t, prev) == Lo32(SubW(t, prev))            \* low 32 bits of t - prev (read as i32)
IsNeg32(d) == d[2] >= 32768
EcInit(prev) == [prev |-> prev, ld |-> Zero(2), ld2w |-> Zero(2), ld2z |-> Zero(4)]

(* the stuck test; returns <<ec', stuck in mode W, stuck in mode Z>> *)
StuckTest(ec, d) ==
  LET d2w == SubW(ec.ld, d)                                   \* mod 2^32
      d3w == SubW(d2w, ec.ld2w)
      d2z == SubW(SignExt64(ec.ld), SignExt64(d))             \* exact in Z
      d3z == SubW(d2z, ec.ld2z)
      ec2 == [ec EXCEPT !.ld = d, !.ld2w = d2w, !.ld2z = d2z]
  IN << ec2, IsZero(d) \/ IsZero(d2w) \/ IsZero(d3w), IsZero(d) \/ IsZero(d2z) \/ IsZero(d3z) >>

(* ---- one measurement: readings a (memory-walk loop count), t (time stamp), b (LFSR loop count) ---- *)
(* state st = [pool, mpi, ec]; result <<st', stuck (in the given mode), the two modes disagree>>     *)
Measure(st, a, t, b, mode) ==
  LET mpi2 == MemWalk(st.mpi, 128 + LoopCnt(a, st.pool))
      d    == Delta32(t, st.ec.prev)
      p1   == Lfsr(st.pool, SignExt64(d))
      sk   == StuckTest([st.ec EXCEPT !.prev = t], d)
      stuck == IF mode = "W" THEN sk[2] ELSE sk[3]
  IN << [pool |-> IF stuck THEN p1 ELSE Rotl7(p1), mpi |-> mpi2, ec |-> sk[1]], stuck, sk[2] # sk[3] >>

(* ---- one collection (gen_entropy) on the readings rd[off+1 ..] ------------------------------ *)
(* rd[off+1] primes prev; then measurements of 3 readings each: one priming measurement whose   *)
(* result is ignored, then measurements until `rounds` of them were not stuck; then the stir.   *)
(* Returns [ok, pool, mpi, used, dis]: ok iff the readings suffice; used = readings consumed    *)
(* (1 + 3 * measurements); dis = the Z and mod-2^32 readings of the stuck test disagreed.       *)
Collect(pool, mpi, rounds, rd, off, mode) ==
  LET n == Len(rd) - off
      nm == IF n >= 1 THEN (n - 1) \div 3 ELSE 0               \* measurements available
      st0 == [pool |-> pool, mpi |-> mpi, ec |-> EcInit(rd[off + 1])]
      step(acc, k) ==
        IF acc.done # 0 THEN acc
        ELSE LET r == Measure(acc.st, rd[off + 3 * k - 1], rd[off + 3 * k], rd[off + 3 * k + 1], mode)
                 g == IF k = 1 THEN 0 ELSE IF r[2] THEN acc.good ELSE acc.good + 1
             IN [st |-> r[1], good |-> g, done |-> IF k > 1 /\ g = rounds THEN k ELSE 0, dis |-> acc.dis \/ r[3]]
      fin == IF nm >= 1 THEN FoldLeft(step, [st |-> st0, good |-> 0, done |-> 0, dis |-> FALSE], Idx(nm))
             ELSE [st |-> [pool |-> pool, mpi |-> mpi], good |-> 0, done |-> 0, dis |-> FALSE]
  IN IF fin.done # 0
     THEN [ok |-> TRUE, pool |-> Stir(fin.st.pool), mpi |-> fin.st.mpi, used |-> 1 + 3 * fin.done, dis |-> fin.dis]
     ELSE [ok |-> FALSE, pool |-> pool, mpi |-> mpi, used |-> 0, dis |-> fin.dis]

(* ---- timer_stats(var_rounds): readings time, [a, b if var_rounds], time2 ---- *)
TimerStats(pool, mpi, var, rd) ==
  LET n == Len(rd)
      time == rd[1]
      cnt == IF var THEN 128 + LoopCnt(rd[2], pool) ELSE 128
  IN IF n = (IF var THEN 4 ELSE 2)
     THEN [ok |-> TRUE, pool |-> Lfsr(pool, time), mpi |-> MemWalk(mpi, cnt), ret |-> SubW(rd[n], time)]
     ELSE [ok |-> FALSE, pool |-> pool, mpi |-> mpi, ret |-> Zero(4)]
=============================================================================

------------------------------- MODULE Xoshiro -------------------------------
(***************************************************************************)
(* Layer 1 reference: the xoshiro / xoroshiro generators of Blackman and   *)
(* Vigna, written in the shape of the C reference sources (sequential      *)
(* assignments on s[0..n-1]); a state is the sequence of its words, s[1]    *)
(* here being s[0] of the C code.                                          *)
(*                                                                         *)
(*  xoroshiro (a,b,c):  s1 ^= s0; s[0] = rotl(s0,a) ^ s1 ^ (s1 << b);      *)
(*                      s[1] = rotl(s1,c);                                 *)
(*  xoshiro 4 words (a,r): t = s[1] << a; s[2]^=s[0]; s[3]^=s[1];          *)
(*                      s[1]^=s[2]; s[0]^=s[3]; s[2]^=t; s[3]=rotl(s[3],r) *)
(*  xoshiro512 (11,21): t = s[1] << 11; s[2]^=s[0]; s[5]^=s[1]; s[1]^=s[2];*)
(*                      s[7]^=s[3]; s[3]^=s[4]; s[4]^=s[5]; s[0]^=s[6];    *)
(*                      s[6]^=s[7]; s[6]^=t; s[7]=rotl(s[7],21)            *)
(***************************************************************************)
EXTENDS Words, SplitMix64

XoroStep(s, a, b, c) ==
  LET s0 == s[1]
      s1 == XorW(s[2], s0)
  IN << XorW(XorW(RotlW(s0, a), s1), ShlW(s1, b)), RotlW(s1, c) >>

Xo4Step(s, a, r) ==
  LET t  == ShlW(s[2], a)
      s2 == XorW(s[3], s[1])
      s3 == XorW(s[4], s[2])
      s1 == XorW(s[2], s2)
      s0 == XorW(s[1], s3)
  IN << s0, s1, XorW(s2, t), RotlW(s3, r) >>

Xo8Step(s) ==
  LET t  == ShlW(s[2], 11)
      s2 == XorW(s[3], s[1])
      s5 == XorW(s[6], s[2])
      s1 == XorW(s[2], s2)
      s7 == XorW(s[8], s[4])
      s3 == XorW(s[4], s[5])
      s4 == XorW(s[5], s5)
      s0 == XorW(s[1], s[7])
      s6 == XorW(s[7], s7)
  IN << s0, s1, s2, s3, s4, s5, XorW(s6, t), RotlW(s7, 21) >>

(* output scramblers *)
W5(n)  == FromNat(5, n)
W9(n)  == FromNat(9, n)
StarStar579(x) == MulW(RotlW(MulW(x, W5(Len(x))), 7), W9(Len(x)))      \* rotl(x*5,7)*9
M32 == H32(\h9E37, \h79BB)
Star32(x)     == MulW(x, M32)                                          \* s0 * 0x9E3779BB
StarStar32(x) == MulW(RotlW(MulW(x, M32), 5), W5(2))                   \* rotl(s0*0x9E3779BB,5)*5
PlusPlus(x, y, r) == AddW(RotlW(AddW(x, y), r), x)                      \* rotl(x+y,r)+x

Kinds == { "Xoroshiro64Star", "Xoroshiro64StarStar",
           "Xoroshiro128Plus", "Xoroshiro128PlusPlus", "Xoroshiro128StarStar",
           "Xoshiro128Plus", "Xoshiro128PlusPlus", "Xoshiro128StarStar",
           "Xoshiro256Plus", "Xoshiro256PlusPlus", "Xoshiro256StarStar",
           "Xoshiro512Plus", "Xoshiro512PlusPlus", "Xoshiro512StarStar" }

(* limbs per word, words per state *)
WLimbs(k) == IF k \in {"Xoroshiro64Star", "Xoroshiro64StarStar",
                        "Xoshiro128Plus", "Xoshiro128PlusPlus", "Xoshiro128StarStar"} THEN 2 ELSE 4
NWords(k) == CASE k \in {"Xoroshiro64Star", "Xoroshiro64StarStar",
                          "Xoroshiro128Plus", "Xoroshiro128PlusPlus", "Xoroshiro128StarStar"} -> 2
               [] k \in {"Xoshiro128Plus", "Xoshiro128PlusPlus", "Xoshiro128StarStar",
                          "Xoshiro256Plus", "Xoshiro256PlusPlus", "Xoshiro256StarStar"} -> 4
               [] OTHER -> 8
SeedBytes(k) == 2 * WLimbs(k) * NWords(k)

(* the linear engine of each generator *)
XoStep(k, s) ==
  CASE k \in {"Xoroshiro64Star", "Xoroshiro64StarStar"}          -> XoroStep(s, 26, 9, 13)
    [] k \in {"Xoroshiro128Plus", "Xoroshiro128StarStar"}        -> XoroStep(s, 24, 16, 37)
    [] k = "Xoroshiro128PlusPlus"                                -> XoroStep(s, 49, 21, 28)
    [] k \in {"Xoshiro128Plus", "Xoshiro128PlusPlus", "Xoshiro128StarStar"} -> Xo4Step(s, 9, 11)
    [] k \in {"Xoshiro256Plus", "Xoshiro256PlusPlus", "Xoshiro256StarStar"} -> Xo4Step(s, 17, 45)
    [] OTHER                                                     -> Xo8Step(s)

(* the output word computed from the state BEFORE the step *)
XoOut(k, s) ==
  CASE k = "Xoroshiro64Star"       -> Star32(s[1])
    [] k = "Xoroshiro64StarStar"   -> StarStar32(s[1])
    [] k = "Xoroshiro128Plus"      -> AddW(s[1], s[2])
    [] k = "Xoroshiro128PlusPlus"  -> PlusPlus(s[1], s[2], 17)
    [] k = "Xoroshiro128StarStar"  -> StarStar579(s[1])
    [] k = "Xoshiro128Plus"        -> AddW(s[1], s[4])
    [] k = "Xoshiro128PlusPlus"    -> PlusPlus(s[1], s[4], 7)
    [] k = "Xoshiro128StarStar"    -> StarStar579(s[2])
    [] k = "Xoshiro256Plus"        -> AddW(s[1], s[4])
    [] k = "Xoshiro256PlusPlus"    -> PlusPlus(s[1], s[4], 23)
    [] k = "Xoshiro256StarStar"    -> StarStar579(s[2])
    [] k = "Xoshiro512Plus"        -> AddW(s[1], s[3])
    [] k = "Xoshiro512PlusPlus"    -> PlusPlus(s[3], s[1], 17)      \* rotl(s[0]+s[2],17)+s[2]
    [] k = "Xoshiro512StarStar"    -> StarStar579(s[2])

XoNext(k, s) == <<XoStep(k, s), XoOut(k, s)>>                 \* <<new state, output>>

(* state whose words are the little-endian words of the seed *)
XoFromSeed(k, seed) == WordsOfBytes(seed, 2 * WLimbs(k))
XoZeroState(k, s) == \A i \in 1..Len(s) : IsZero(s[i])

(* the reference jump(): xor of the states visited at the set bits of the *)
(* polynomial, words in array order, bits from the least significant      *)
XoXorState(s, t) == TLCEval([i \in 1..Len(s) |-> XorW(s[i], t[i])])
XoJumpPoly(k, s, poly) ==
  LET wb == 16 * WLimbs(k)
      nb == wb * Len(poly)
      z  == TLCEval([i \in 1..Len(s) |-> Zero(WLimbs(k))])
      step(acc, j) ==            \* j = 0-based bit number; acc = <<accumulated, current>>
        LET bit == BitAt(poly[(j \div wb) + 1], j % wb)
        IN << IF bit = 1 THEN XoXorState(acc[1], acc[2]) ELSE acc[1], XoStep(k, acc[2]) >>
  IN FoldLeft(step, <<z, s>>, TLCEval([j \in 1..nb |-> j - 1]))[1]

(* jump polynomials as published with the reference sources *)
JumpPoly(k) ==
  CASE k \in {"Xoroshiro128Plus", "Xoroshiro128StarStar"} ->
         << H64(\hdf90, \h0294, \hd8f5, \h54a5), H64(\h1708, \h65df, \h4b32, \h01fc) >>
    [] k = "Xoroshiro128PlusPlus" ->
         << H64(\h2bd7, \ha6a6, \he99c, \h2ddc), H64(\h0992, \hccaf, \h6a6f, \hca05) >>
    [] k \in {"Xoshiro128Plus", "Xoshiro128PlusPlus", "Xoshiro128StarStar"} ->
         << H32(\h8764, \h000b), H32(\hf542, \hd2d3), H32(\h6fa0, \h35c3), H32(\h77f2, \hdb5b) >>
    [] k \in {"Xoshiro256Plus", "Xoshiro256PlusPlus", "Xoshiro256StarStar"} ->
         << H64(\h180e, \hc6d3, \h3cfd, \h0aba), H64(\hd5a6, \h1266, \hf0c9, \h392c),
            H64(\ha958, \h2618, \he03f, \hc9aa), H64(\h39ab, \hdc45, \h29b1, \h661c) >>
    [] k \in {"Xoshiro512Plus", "Xoshiro512PlusPlus", "Xoshiro512StarStar"} ->
         << H64(\h33ed, \h89b6, \he7a3, \h53f9), H64(\h7600, \h83d7, \h9553, \h23be),
            H64(\h2837, \hf2fb, \hb5f2, \h2fae), H64(\h4b8c, \h5674, \hd309, \h511c),
            H64(\hb11a, \hc47a, \h7ba2, \h8c25), H64(\hf1be, \h7667, \h092b, \hcc1c),
            H64(\h5385, \h1efd, \hb6df, \h0aaf), H64(\h1ebb, \hc8b2, \h3eaf, \h25db) >>
LongJumpPoly(k) ==
  CASE k \in {"Xoroshiro128Plus", "Xoroshiro128StarStar"} ->
         << H64(\hd2a9, \h8b26, \h625e, \hee7b), H64(\hdddf, \h9b10, \h90aa, \h7ac1) >>
    [] k = "Xoroshiro128PlusPlus" ->
         << H64(\h360f, \hd5f2, \hcf8d, \h5d99), H64(\h9c6e, \h6877, \h736c, \h46e3) >>
    [] k \in {"Xoshiro128Plus", "Xoshiro128PlusPlus", "Xoshiro128StarStar"} ->
         << H32(\hb523, \h952e), H32(\h0b6f, \h099f), H32(\hccf5, \ha0ef), H32(\h1c58, \h0662) >>
    [] k \in {"Xoshiro256Plus", "Xoshiro256PlusPlus", "Xoshiro256StarStar"} ->
         << H64(\h76e1, \h5d3e, \hfefd, \hcbbf), H64(\hc500, \h4e44, \h1c52, \h2fb3),
            H64(\h7771, \h0069, \h854e, \he241), H64(\h3910, \h9bb0, \h2acb, \he635) >>
    [] k \in {"Xoshiro512Plus", "Xoshiro512PlusPlus", "Xoshiro512StarStar"} ->
         << H64(\h1146, \h7fef, \h8f92, \h1d28), H64(\ha2a8, \h19f2, \he79c, \h8ea8),
            H64(\ha829, \h9fc2, \h84b3, \h959a), H64(\hb4d3, \h4734, \h0ca6, \h3ee1),
            H64(\h1cb0, \h940b, \hedbf, \hf6ce), H64(\hd956, \hc5c4, \hfa1f, \h8e17),
            H64(\h915e, \h38fd, \h4eda, \h93bc), H64(\h5b3c, \hcdfa, \h5d7d, \haca5) >>
HasJump(k) == k \notin {"Xoroshiro64Star", "Xoroshiro64StarStar"}
XoJump(k, s)     == XoJumpPoly(k, s, JumpPoly(k))
XoLongJump(k, s) == XoJumpPoly(k, s, LongJumpPoly(k))
=============================================================================

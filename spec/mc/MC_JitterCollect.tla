---- MODULE MC_JitterCollect ----
EXTENDS JitterCollect
====

SPECIFICATION Spec
CONSTANTS
  Mode = "blk64"
  Class = "b64"
  BufLen = 4
  Fills <- MCFills64
  MaxBlk = 2
  EqMode = "derived"
  SerMode = "full"
  Inst <- MCInst
  Seeds <- MCSeeds
CONSTRAINT Bound
INVARIANT EqIsCongruence
INVARIANT CloneIsEqual
INVARIANT RestoreIsIdentical
INVARIANT SerDoesNotDisturb
CHECK_DEADLOCK FALSE

SPECIFICATION MCSpec
CONSTANTS
  Mode = "blk32"
  Class = "b32"
  BufLen = 256
  Fills <- FillsIsaac
  MaxBlk = 3
CONSTRAINT Bound
VIEW View
INVARIANT TypeOK
PROPERTY Refines
PROPERTY NoSkipNoRepeat
CHECK_DEADLOCK FALSE

SPECIFICATION Spec
INVARIANT Ok
POSTCONDITION Done
CHECK_DEADLOCK FALSE

INIT Init
NEXT Next
INVARIANT Ok
POSTCONDITION Done
CHECK_DEADLOCK FALSE

---------------------------- MODULE MC_WordsTest ----------------------------
(* Self-test of layer 0 against cases computed independently (python ints).  *)
EXTENDS Words, Json, IOUtils, TLC
Cases == ndJsonDeserialize(IOEnv.CASES)
VARIABLE i
Eval(c) ==
  CASE c.op = "xor"  -> XorW(c.a, c.b)
    [] c.op = "and"  -> AndW(c.a, c.b)
    [] c.op = "or"   -> OrW(c.a, c.b)
    [] c.op = "not"  -> NotW(c.a)
    [] c.op = "add"  -> AddW(c.a, c.b)
    [] c.op = "sub"  -> SubW(c.a, c.b)
    [] c.op = "mul"  -> MulW(c.a, c.b)
    [] c.op = "shl"  -> ShlW(c.a, c.k)
    [] c.op = "shr"  -> ShrW(c.a, c.k)
    [] c.op = "rotl" -> RotlW(c.a, c.k)
    [] c.op = "rotr" -> RotrW(c.a, c.k)
    [] c.op = "bytes" -> ToBytesLE(c.a)
    [] c.op = "frombytes" -> FromBytesLE(c.a)
    [] c.op = "bitlen" -> <<BitLenW(c.a)>>
    [] c.op = "lt" -> <<IF LtW(c.a, c.b) THEN 1 ELSE 0>>
    [] c.op = "sext" -> SignExt64(c.a)
Init == i = 1
Next == i <= Len(Cases) /\ i' = i + 1
Ok == i <= Len(Cases) =>
        \/ Eval(Cases[i]) = Cases[i].r
        \/ PrintT(<<"MISMATCH", i, Cases[i], Eval(Cases[i])>>) /\ FALSE
Done == TLCGet("stats").diameter = Len(Cases) + 1
=============================================================================

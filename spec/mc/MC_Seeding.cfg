SPECIFICATION Spec
CONSTANTS
  SLen = 2
  NoRemap = FALSE
INVARIANT NeverZeroState
INVARIANT ZeroSeedDocumented
INVARIANT NonZeroSeedVerbatim
INVARIANT ErrIffSourceFailed
INVARIANT CursorAdvance
INVARIANT RedrawOnlyOnZeroBlock
CHECK_DEADLOCK FALSE

----------------------------- MODULE MC_Seeding -----------------------------
(***************************************************************************)
(* Exhaustive exploration of the seeding protocol (C08, C09) in a small    *)
(* world: seeds of SLen bytes over the byte alphabet {0,1}, every cyclic    *)
(* source script of 3 blocks, every failure position / partial write /     *)
(* stickiness, every protocol class, sequences of constructor calls on the *)
(* same source (so the cursor is carried over), and the u64 arguments that *)
(* matter: 0, one whose expansion is an all-zero block, any other.         *)
(* NoRemap = TRUE is the negative control (zero seeds used verbatim).      *)
(***************************************************************************)
EXTENDS Seeding, FiniteSets
CONSTANTS SLen, NoRemap
VARIABLES cls, src, last, calls
vars == <<cls, src, last, calls>>

Bytes01(n) == [1..n -> {0, 1}]
Classes == {"remap", "redraw", "plain", "full"}
FLen(c) == IF c = "full" THEN 2 * SLen ELSE SLen            \* "full" draws more than a seed's worth
U64s == {0, 1, 2}          \* abstract u64 arguments: 0; 1 = one whose expansion is all zero; 2 = any other
(* the documented expansion of a u64 into a seed; Expand("zero") is not all-zero (checked concretely in ALG_Seed) *)
Expand(x) == IF x = 1 THEN [i \in 1..SLen |-> 0] ELSE IF x = 0 THEN [i \in 1..SLen |-> 1]
             ELSE [i \in 1..SLen |-> IF i = 1 THEN 1 ELSE 0]
FromSeedM(c, seed) == IF NoRemap THEN <<"verbatim", seed>> ELSE FromSeedD(c, seed)
(* resolve <<"u64", x>>: seed_from_u64(x) = from_seed(Expand(x)) *)
RECURSIVE Resolve(_, _, _)
Resolve(c, d, fuel) == IF d[1] = "u64" /\ fuel > 0 THEN Resolve(c, FromSeedM(c, Expand(d[2])), fuel - 1) ELSE d

Init == /\ cls \in Classes
        /\ \E bs \in Bytes01(3 * SLen), fa \in 0..3, pa \in {0, 1}, st \in BOOLEAN, fl \in BOOLEAN, ld \in {0, SLen + 1} :
              /\ ~AllZero(bs)
              /\ src = [bytes |-> bs, lead |-> ld, pos |-> 0, calls |-> 0, fallible |-> fl, failAt |-> IF fl THEN fa ELSE 0,
                        partial |-> pa, sticky |-> st]
        /\ last = [op |-> "none"] /\ calls = 0

CallFromSeed == \E seed \in Bytes01(SLen) :
   /\ last' = [op |-> "from_seed", seed |-> seed, gen |-> Resolve(cls, FromSeedM(cls, seed), 3), ok |-> TRUE, before |-> src, log |-> <<>>]
   /\ UNCHANGED <<cls, src>> /\ calls' = calls + 1
CallSeedFromU64 == \E x \in U64s :
   /\ last' = [op |-> "seed_from_u64", x |-> x, gen |-> Resolve(cls, <<"u64", x>>, 3), ok |-> TRUE, before |-> src, log |-> <<>>]
   /\ UNCHANGED <<cls, src>> /\ calls' = calls + 1
CallFromRng ==          \* infallible sources only (from_rng takes an RngCore)
   /\ ~src.fallible
   /\ LET r == FromRngD(cls, SLen, FLen(cls), src)
          g == IF r.ok /\ NoRemap /\ r.gen[1] = "u64" THEN <<"verbatim", SrcTake(src, SLen)>> ELSE r.gen
      IN /\ last' = [op |-> "from_rng", gen |-> Resolve(cls, g, 3), ok |-> r.ok, before |-> src, log |-> r.log]
         /\ src' = r.src
   /\ UNCHANGED cls /\ calls' = calls + 1
CallTryFromRng ==
   /\ LET r == FromRngD(cls, SLen, FLen(cls), src)
      IN /\ last' = [op |-> "try_from_rng", gen |-> Resolve(cls, r.gen, 3), ok |-> r.ok, before |-> src, log |-> r.log]
         /\ src' = r.src
   /\ UNCHANGED cls /\ calls' = calls + 1
Next == calls < 3 /\ (CallFromSeed \/ CallSeedFromU64 \/ CallFromRng \/ CallTryFromRng)
Spec == Init /\ [][Next]_vars

(* ---- C08 ---- *)
NeverZeroState == last.op # "none" /\ last.ok => ~IsZeroStateD(cls, last.gen)
ZeroSeedDocumented ==
  last.op = "from_seed" /\ AllZero(last.seed) =>
     CASE cls = "remap" -> last.gen = Resolve(cls, <<"u64", 0>>, 3)      \* identical to seed_from_u64(0)
       [] cls = "redraw" -> last.gen = <<"const">>
       [] OTHER -> last.gen = <<"verbatim", last.seed>>
NonZeroSeedVerbatim == last.op = "from_seed" /\ ~AllZero(last.seed) => last.gen = <<"verbatim", last.seed>>
(* ---- C09 ---- *)
Delivered(log) == FoldLeft(LAMBDA a, e : a + e[2], 0, log)
AnyFailed(log) == \E i \in 1..Len(log) : ~log[i][1]
LeadingZeroBlocks(s) == CHOOSE z \in 0..8 :
   /\ \A j \in 0..(z - 1) : AllZero(SrcTake([s EXCEPT !.pos = @ + j * SLen], SLen))
   /\ (z = 8 \/ ~AllZero(SrcTake([s EXCEPT !.pos = @ + z * SLen], SLen)))
ErrIffSourceFailed ==
  last.op \in {"from_rng", "try_from_rng"} /\ last.gen # <<"loops">> =>
     /\ last.ok = ~AnyFailed(last.log)
     /\ ~last.ok => last.gen = <<"none">>
CursorAdvance ==
  last.op \in {"from_rng", "try_from_rng"} =>
     /\ src.pos = last.before.pos + Delivered(last.log)
     /\ src.calls = last.before.calls + Len(last.log)
     /\ last.ok => Delivered(last.log) = (IF cls = "redraw" THEN SLen * (LeadingZeroBlocks(last.before) + 1) ELSE FLen(cls))
RedrawOnlyOnZeroBlock ==
  last.op \in {"from_rng", "try_from_rng"} /\ cls = "redraw" =>
     \A i \in 1..(Len(last.log) - 1) : last.log[i][1] =>
        AllZero(SrcTake([last.before EXCEPT !.pos = @ + (i - 1) * SLen], SLen))
=============================================================================

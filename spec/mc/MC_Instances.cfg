SPECIFICATION Spec
CONSTANTS
  Inst <- MCInst
  Threads <- MCThreads
  Seeds <- MCSeeds
  OpsPer = 2
  WithStd = TRUE
  LeakMode = "none"
INVARIANT UsesOwnSeed
INVARIANT SoloResults
INVARIANT CacheOnlyAffectsNewStd
PROPERTY Frame
VIEW View
CHECK_DEADLOCK FALSE


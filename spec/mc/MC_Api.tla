------------------------------- MODULE MC_Api -------------------------------
(***************************************************************************)
(* Exhaustive model checking of the API machine (C05) and behaviour        *)
(* generation: every transition taken is printed as                        *)
(*   <<"E", idx, half, blk, op, n, idx', half', blk'>>                     *)
(* so that tools/ can turn TLC's state graph into a transition cover that  *)
(* is replayed on the real generator types.                                *)
(***************************************************************************)
EXTENDS ApiImpl
B(x) == IF x THEN 1 ELSE 0
Edge(op, n) == PrintT(<<"E", idx, B(half), blk, op, n, idx', B(half'), blk'>>)
MCNext == \/ NextU32 /\ Edge("next_u32", 0)
          \/ NextU64 /\ Edge("next_u64", 0)
          \/ \E n \in Fills : FillBytes(n) /\ Edge("fill_bytes", n)
MCSpec == Init /\ [][MCNext]_vars

FillsHc    == 0..137                                     \* 0 .. 2*64+9
FillsIsaac == (0..40) \cup (1015..1033) \cup (2039..2057) \* around 1 and 2 blocks of 1024 bytes
FillsIsaac64 == (0..40) \cup (2039..2057) \cup (4087..4105)
FillsVia   == 0..25
(* reduced length sets for the quick tier *)
FillsIsaacQ   == (0..18) \cup (1021..1028) \cup (2045..2052)
FillsIsaac64Q == (0..18) \cup (2043..2054) \cup (4091..4102)
=============================================================================

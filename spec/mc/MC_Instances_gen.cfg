SPECIFICATION Spec
CONSTANTS
  Inst <- MCInst2
  Threads <- MCThreads
  Seeds <- MCSeeds1
  OpsPer = 3
  WithStd = FALSE
  LeakMode = "none"
INVARIANT UsesOwnSeed
INVARIANT SoloResults
INVARIANT CacheOnlyAffectsNewStd
PROPERTY Frame
CHECK_DEADLOCK FALSE
INVARIANT Emit

---------------------------- MODULE MC_TestTimer ----------------------------
(***************************************************************************)
(* C13 on the abstract decision: the outcome of test_timer depends on the  *)
(* 1601 readings only through a summary (zero reading / zero delta seen,   *)
(* backward count, multiple-of-100 count, stuck count, mean variation).    *)
(* TLC enumerates summaries over all boundary values and checks that the   *)
(* code-shaped decision procedure ImplDecision (thresholds, lookup table,  *)
(* log2 formula) always lands inside the relation the property states,     *)
(* and that set_rounds(r) after Ok(r) never meets its assertion - also     *)
(* through the process-wide cache used by JitterRng::new().                *)
(*                                                                         *)
(* The estimate is piecewise constant in the mean with break points at the *)
(* integers below 16 and at powers of two, so means 0..MaxMean plus        *)
(* 2^k-1, 2^k, 2^k+1 for every k <= 32 cover every piece.                  *)
(***************************************************************************)
EXTENDS TestTimer, TLC
CONSTANTS TinyLimit,        \* the code rejects mean < TinyLimit as TinyVariations
          MaxMean           \* means 0..MaxMean are enumerated exhaustively
VARIABLES s,                \* the summary the timer produced
          phase,            \* "probe" -> "decided" -> "set"
          outcome,          \* <<"ok", r>> | <<"err", e>>
          rounds,           \* the generator's rounds field (64 from new_with_timer)
          cache,            \* JITTER_ROUNDS, the one process-wide static (0 = empty)
          asserted          \* TRUE iff set_rounds met `assert!(rounds > 0)`
vars == <<s, phase, outcome, rounds, cache, asserted>>

W(k) == FromNat(k, 4)
Pow2W(k) == ShlW(W(1), k)
BoundaryMeans == {W(m) : m \in 0..MaxMean}
                 \cup {SubW(Pow2W(k), W(1)) : k \in 1..32} \cup {Pow2W(k) : k \in 1..32}
                 \cup {AddW(Pow2W(k), W(1)) : k \in 1..32}
Counts == {0, 3, 4, Thr, Thr + 1, Eval}
Mk(zr, zd, back, md, sw, sz, m) ==
  [np |-> NProbes, full |-> TRUE, zeroReading |-> zr, zeroDelta |-> zd,
   backE |-> back, backAll |-> back, modE |-> md, modAll |-> md, stuckW |-> sw, stuckZ |-> sz,
   means |-> {m}, mainMean |-> m]
(* all means with benign counts, and all count/flag combinations with a few means *)
Summaries ==
  {Mk(FALSE, FALSE, 0, 0, 0, 0, m) : m \in BoundaryMeans}
  \cup {Mk(zr, zd, b, md, st, st, m) : zr \in BOOLEAN, zd \in BOOLEAN, b \in {0, 3, 4}, md \in {0, Thr, Thr + 1},
                                       st \in {0, Thr, Thr + 1}, m \in {W(0), W(1), W(2), W(15), W(16), W(1000)}}

Init == /\ s \in Summaries /\ phase = "probe" /\ outcome = <<"none", 0>>
        /\ rounds = 64 /\ cache \in {0, 1, 64} /\ asserted = FALSE
(* test_timer returns *)
Decide == /\ phase = "probe" /\ phase' = "decided"
          /\ outcome' = ImplDecision(s, TinyLimit)
          /\ PrintT(<<"CASE", s.zeroReading, s.zeroDelta, s.backE, s.modE, s.stuckW, s.mainMean, ImplDecision(s, TinyLimit)>>)
          /\ UNCHANGED <<s, rounds, cache, asserted>>
(* the documented idiom rng.set_rounds(rng.test_timer()?) *)
SetRounds == /\ phase = "decided" /\ outcome[1] = "ok" /\ phase' = "set"
             /\ IF outcome[2] > 0 THEN rounds' = outcome[2] /\ UNCHANGED asserted
                ELSE asserted' = TRUE /\ UNCHANGED rounds
             /\ UNCHANGED <<s, outcome, cache>>
(* JitterRng::new(): use the cached value if there is one, else test, cache, set *)
NewStd == /\ phase = "probe" /\ phase' = "set"
          /\ LET d == ImplDecision(s, TinyLimit)
                 r == IF cache # 0 THEN cache ELSE IF d[1] = "ok" THEN d[2] ELSE -1
             IN IF r = -1 THEN UNCHANGED <<rounds, cache, asserted>> /\ outcome' = d          \* Err propagated by `?`
                ELSE /\ cache' = (IF cache # 0 THEN cache ELSE r)
                     /\ outcome' = <<"ok", r>>
                     /\ IF r > 0 THEN rounds' = r /\ UNCHANGED asserted ELSE asserted' = TRUE /\ UNCHANGED rounds
          /\ UNCHANGED s
Next == Decide \/ SetRounds \/ NewStd
Spec == Init /\ [][Next]_vars

(* C13 *)
OutcomeAllowed ==
  phase = "decided" =>
     \/ outcome[1] = "ok" /\ OkAllowed(outcome[2], s)
     \/ outcome[1] = "err" /\ ErrAllowed(outcome[2], s)
ErrorWhenDefinite == phase = "decided" /\ Definite(s) => outcome[1] = "err"
NeverAsserts == ~asserted
RoundsPositive == rounds >= 1
=============================================================================

SPECIFICATION Spec
CONSTANTS
  TinyLimit = 2
  MaxMean = 10000
INVARIANT OutcomeAllowed
INVARIANT ErrorWhenDefinite
INVARIANT NeverAsserts
INVARIANT RoundsPositive
CHECK_DEADLOCK FALSE

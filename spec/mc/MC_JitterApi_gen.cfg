SPECIFICATION MCSpec
CONSTANTS
  Inst <- MCInst
  MaxTok = 3
  FillLens <- MCFills
  CloneCopiesFlag = FALSE
CONSTRAINT Bound
INVARIANT TypeOK
INVARIANT AtMostOnce
INVARIANT PendingIsHighHalfOfOwnValue
PROPERTY FreshOrPendingHalf
CHECK_DEADLOCK FALSE

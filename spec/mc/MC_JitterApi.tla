---------------------------- MODULE MC_JitterApi ----------------------------
(* exhaustive exploration of the hand-out machine (C16); every transition is *)
(* printed so that tools/ can build a transition cover for the real JitterRng *)
EXTENDS JitterApi
B(x) == IF x THEN 1 ELSE 0
St == <<[g \in Inst |-> B(g \in alive)], [g \in Inst |-> B(pend[g])]>>
St2 == <<[g \in Inst |-> B(g \in alive')], [g \in Inst |-> B(pend'[g])]>>
MCNext == \E g \in Inst :
            \/ NextU32(g) /\ PrintT(<<"J", St, "next_u32", g, 0, St2>>)
            \/ NextU64(g) /\ PrintT(<<"J", St, "next_u64", g, 0, St2>>)
            \/ SetRounds(g) /\ PrintT(<<"J", St, "set_rounds", g, 0, St2>>)
            \/ TimerStats(g) /\ PrintT(<<"J", St, "timer_stats", g, 0, St2>>)
            \/ TestTimer(g) /\ PrintT(<<"J", St, "test_timer", g, 0, St2>>)
            \/ \E n \in FillLens : Fill(g, n) /\ PrintT(<<"J", St, "fill_bytes", g, n, St2>>)
            \/ \E h \in Inst : Clone(g, h) /\ PrintT(<<"J", St, "clone", g, h, St2>>)
            \/ \E h \in Inst : CloneFrom(g, h) /\ PrintT(<<"J", St, "clone_from", g, h, St2>>)
MCSpec == Init /\ [][MCNext]_vars
(* the bounded plan used by the Apalache proof (apalache/APA_JitterApi) is the plan *)
ASSUME \A p \in BOOLEAN, n \in 0..47 : PlanFillB(p, n) = PlanFill(p, n) /\ PlanFillSetB(p, n) = PlanFillSet(p, n)
MCInst == {1, 2, 3}
MCFills == {0, 1, 3, 4, 5, 7, 8, 9, 12, 13, 16, 17}
=============================================================================

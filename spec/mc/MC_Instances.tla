---- MODULE MC_Instances ----
EXTENDS Instances
MCInst == {1, 2, 3}
MCInst2 == {1, 2}
MCThreads == {1, 2}
MCSeeds == {1, 2}
MCSeeds1 == {1}
(* GEN: print every complete interleaving once *)
Emit == Done => PrintT(<<"SCHED", sched>>)
====

SPECIFICATION Spec
CONSTANTS
  Mode = "blk32"
  Class = "b32"
  BufLen = 4
  Fills <- MCFills64
  MaxBlk = 2
  EqMode = "core_index"
  SerMode = "full"
  Inst <- MCInst
  Seeds <- MCSeeds
CONSTRAINT Bound
INVARIANT EqIsCongruence
INVARIANT CloneIsEqual
INVARIANT RestoreIsIdentical
INVARIANT SerDoesNotDisturb
CHECK_DEADLOCK FALSE

SPECIFICATION Spec
CONSTANTS
  Inst <- MCInst
  MaxTok = 5
  FillLens <- MCFills
  CloneCopiesFlag = FALSE
CONSTRAINT Bound
INVARIANT TypeOK
INVARIANT AtMostOnce
INVARIANT PendingIsHighHalfOfOwnValue
PROPERTY FreshOrPendingHalf
CHECK_DEADLOCK FALSE

SPECIFICATION Spec
CONSTANTS
  Rounds = 3
  MaxStuck = 4
INVARIANT ReadsExact
INVARIANT ReturnsOnlyWhenCollected
INVARIANT RotationsMatch
INVARIANT StirOnlyAtEnd
PROPERTY Terminates
CHECK_DEADLOCK FALSE

SPECIFICATION MCSpec
CONSTANTS
  Mode = "blk64"
  Class = "b64"
  BufLen = 256
  Fills <- FillsIsaac64
  MaxBlk = 3
CONSTRAINT Bound
VIEW View
INVARIANT TypeOK
PROPERTY Refines
PROPERTY NoSkipNoRepeat
CHECK_DEADLOCK FALSE

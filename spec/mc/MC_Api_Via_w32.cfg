SPECIFICATION MCSpec
CONSTANTS
  Mode = "via"
  Class = "w32"
  BufLen = 1
  Fills <- FillsVia
  MaxBlk = 6
CONSTRAINT Bound
VIEW View
INVARIANT TypeOK
PROPERTY Refines
PROPERTY NoSkipNoRepeat
CHECK_DEADLOCK FALSE

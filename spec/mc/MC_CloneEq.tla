---- MODULE MC_CloneEq ----
EXTENDS CloneEq
MCInst == {1, 2}
MCSeeds == {1, 2}
MCFills == {0, 1, 4, 5, 8, 9, 61, 64, 67}
MCFills64 == {0, 1, 4, 5, 8, 9, 15, 16, 17}
====

----------------------------- MODULE MC_Vectors -----------------------------
(***************************************************************************)
(* Self-validation of layer 1: the TLA+ transcriptions of the published    *)
(* algorithms reproduce the published known-answer vectors (Blackman-Vigna *)
(* reference outputs, dsiutils, the three HC-128 vectors of Wu's paper,    *)
(* Jenkins' ISAAC / ISAAC-64 outputs incl. the unseeded generators,        *)
(* xor128).  This checks the SPECIFICATION; no Rust code is involved.      *)
(***************************************************************************)
EXTENDS Alg, Json, IOUtils
Vec == ndJsonDeserialize(IOEnv.VECTORS)
VARIABLE i
Has(r, f) == f \in DOMAIN r
Start(v) == IF Has(v, "u64") THEN SeedFromU64State(v.kind, v.u64) ELSE AlgOfSeed(v.kind, v.seed)
Outputs(v) ==
  LET s0 == AlgTake(v.kind, Start(v), v.skip)[1]
  IN IF Has(v, "mix32")
     THEN FoldLeft(LAMBDA acc, k : LET q == SmNext32(acc[1]) IN <<q[1], Append(acc[2], q[2])>>, <<s0, <<>>>>, Idx(Len(v.expect)))[2]
     ELSE AlgTake(v.kind, s0, Len(v.expect))[2]
Init == i = 1
Next == i <= Len(Vec) /\ i' = i + 1
Spec == Init /\ [][Next]_i
Ok == i <= Len(Vec) =>
        IF Outputs(Vec[i]) = Vec[i].expect THEN TRUE
        ELSE PrintT(<<"VECTOR-MISMATCH", i, Vec[i].kind, Vec[i].src, Outputs(Vec[i])>>) /\ FALSE
Done == TLCGet("stats").diameter = Len(Vec) + 1
=============================================================================

------------------------------- MODULE ApiImpl -------------------------------
(***************************************************************************)
(* Implementation-shaped model of how the crates build next_u32 / next_u64 *)
(* / fill_bytes (C05), one action per public call, written after the code:  *)
(*                                                                         *)
(*  * rand_core::block::BlockRng   (Hc128Rng, IsaacRng)     Mode = "blk32"  *)
(*  * rand_core::block::BlockRng64 (Isaac64Rng)             Mode = "blk64"  *)
(*  * rand_core::impls::{next_u64_via_u32, fill_bytes_via_next} over a      *)
(*    per-type next_u32/next_u64 (xoshiro family, XorShiftRng, JitterRng)   *)
(*                                                          Mode = "via"    *)
(*                                                                         *)
(* Variables: idx, half  — BlockRng's index / BlockRng64's half_used (for   *)
(*                         Mode "via": half = JitterRng's data_half_used,   *)
(*                         idx unused = 0)                                  *)
(*            blk        — number of core.generate() calls so far (blocks); *)
(*                         for Mode "via": number of native steps so far    *)
(*            out        — result of the last call as byte-range            *)
(*                         descriptors <<src, word, lo, hi>> (see Stream)   *)
(* The refinement  ApiImpl => Stream  under                                 *)
(*     pos  <- IF block mode THEN (blk-1)*BufLen + idx ELSE blk,  pend <- half *)
(* is checked by TLC (mc/MC_Api*.cfg) for the real buffer lengths.          *)
(***************************************************************************)
EXTENDS Integers, Sequences, SequencesExt, TLC
CONSTANTS Mode,     \* "blk32" | "blk64" | "via"
          Class,    \* the Stream class this generator claims (see Stream)
          BufLen,      \* results buffer length in words (16 or 256); unused for "via"
          Fills,    \* the set of fill_bytes lengths explored
          MaxBlk    \* state constraint: blocks / native steps explored
VARIABLES idx, half, blk, out
vars == <<idx, half, blk, out>>

WB == IF Class \in {"w32", "b32"} THEN 4 ELSE 8
Bytes(src, w, lo, hi) == << <<src, w, lo, hi>> >>
DLen(d) == d[4] - d[3] + 1
NBytes(o) == FoldLeft(LAMBDA acc, d : acc + DLen(d), 0, o)
Take(o, n) ==          \* the first n bytes of a descriptor sequence (chunk[..n])
  FoldLeft(LAMBDA acc, d :
             LET have == NBytes(acc) IN
             IF have >= n THEN acc
             ELSE IF have + DLen(d) <= n THEN Append(acc, d)
             ELSE Append(acc, <<d[1], d[2], d[3], d[3] + (n - have) - 1>>),
           <<>>, o)
(* stream word number of results[i] of the current block (0-based i) *)
WordNo(b, i) == (b - 1) * BufLen + i

(* Every public call is a pure function of the abstract state s = [idx, half, blk] returning   *)
(* the new state and the output descriptors, [idx, half, blk, out]; the actions below apply it. *)
(* (Modules CloneEq / Instances reuse these functions for several instances.)                   *)
R(i, h, b, o) == [idx |-> i, half |-> h, blk |-> b, out |-> o]

(* ------------------------------------------------------------------ *)
(* BlockRng<R: Item = u32>                                             *)
(* ------------------------------------------------------------------ *)
B32U32(s) ==
  LET gen == s.idx >= BufLen                   \* generate_and_set(0)
      b   == IF gen THEN s.blk + 1 ELSE s.blk
      i   == IF gen THEN 0 ELSE s.idx
  IN R(i + 1, s.half, b, Bytes(0, WordNo(b, i), 0, 3))

B32U64(s) ==
  IF s.idx < BufLen - 1 THEN                   \* both words in the buffer
       R(s.idx + 2, s.half, s.blk, Bytes(0, WordNo(s.blk, s.idx), 0, 3) \o Bytes(0, WordNo(s.blk, s.idx + 1), 0, 3))
  ELSE IF s.idx >= BufLen THEN                 \* generate_and_set(2); read_u64(results, 0)
       R(2, s.half, s.blk + 1, Bytes(0, WordNo(s.blk + 1, 0), 0, 3) \o Bytes(0, WordNo(s.blk + 1, 1), 0, 3))
  ELSE                                         \* x = results[len-1]; generate_and_set(1); y = results[0]
       R(1, s.half, s.blk + 1, Bytes(0, WordNo(s.blk, BufLen - 1), 0, 3) \o Bytes(0, WordNo(s.blk + 1, 0), 0, 3))

(* fill_via_chunks(src = results[i..], dest of `left` bytes): <<consumed words, filled bytes>> *)
Chunks(i, left, wb) ==
  LET avail == BufLen - i
      full  == IF left \div wb < avail THEN left \div wb ELSE avail     \* zipped.len()
      rem   == left - full * wb
  IN IF full < avail /\ rem > 0 /\ rem < wb THEN <<full + 1, full * wb + rem>>
     ELSE <<full, full * wb>>

(* the while loop of fill_bytes, for word size wb *)
RECURSIVE FillLoop(_, _, _, _, _, _)
FillLoop(i, b, rd, n, o, wb) ==
  IF rd >= n THEN <<i, b, o>>
  ELSE LET gen == i >= BufLen
           b2  == IF gen THEN b + 1 ELSE b
           i2  == IF gen THEN 0 ELSE i
           c   == Chunks(i2, n - rd, wb)
           \* c[1] words consumed; the last one partially if c[2] is not a multiple of wb
           o2  == o \o TLCEval([j \in 1..c[1] |->
                          <<0, WordNo(b2, i2 + j - 1), 0,
                            IF j * wb <= c[2] THEN wb - 1 ELSE (c[2] - (j - 1) * wb) - 1>>])
       IN FillLoop(i2 + c[1], b2, rd + c[2], n, o2, wb)

B32Fill(s, n) == LET r == FillLoop(s.idx, s.blk, 0, n, <<>>, 4) IN R(r[1], s.half, r[2], r[3])

(* ------------------------------------------------------------------ *)
(* BlockRng64<R: Item = u64>                                           *)
(* ------------------------------------------------------------------ *)
B64U32(s) ==
  LET index0 == s.idx - (IF s.half THEN 1 ELSE 0)
      gen    == index0 >= BufLen
      b      == IF gen THEN s.blk + 1 ELSE s.blk
      index  == IF gen THEN 0 ELSE index0
      i1     == IF gen THEN 0 ELSE s.idx        \* self.index after the refill branch
      h1     == IF gen THEN FALSE ELSE s.half
      lo     == IF h1 THEN 4 ELSE 0             \* shift = 32 * half_used
      h2     == ~h1
  IN R(i1 + (IF h2 THEN 1 ELSE 0), h2, b, Bytes(0, WordNo(b, index), lo, lo + 3))

B64U64(s) ==
  LET gen == s.idx >= BufLen
      b   == IF gen THEN s.blk + 1 ELSE s.blk
      i   == IF gen THEN 0 ELSE s.idx
  IN R(i + 1, FALSE, b, Bytes(0, WordNo(b, i), 0, 7))

B64Fill(s, n) == LET r == FillLoop(s.idx, s.blk, 0, n, <<>>, 8) IN R(r[1], FALSE, r[2], r[3])

(* ------------------------------------------------------------------ *)
(* via-next generators: blk counts native steps; idx is unused (0)     *)
(* ------------------------------------------------------------------ *)
(* the type's own next_u32 / next_u64, as [o, c (new count), h (new flag)] *)
VNat32(c, h) ==      \* next_u32
  CASE Class = "w32" -> [o |-> Bytes(0, c, 0, 3), c |-> c + 1, h |-> h]
    [] Class = "hi"  -> [o |-> Bytes(0, c, 4, 7), c |-> c + 1, h |-> h]    \* (next_u64() >> 32) as u32
    [] Class = "lo"  -> [o |-> Bytes(0, c, 0, 3), c |-> c + 1, h |-> h]    \* next_u64() as u32
    [] Class = "sm"  -> [o |-> Bytes(1, c, 0, 3), c |-> c + 1, h |-> h]    \* own finalizer, same counter step
    [] Class = "half" ->                                                   \* JitterRng::next_u32
         IF h THEN [o |-> Bytes(0, c - 1, 4, 7), c |-> c, h |-> FALSE]
              ELSE [o |-> Bytes(0, c, 0, 3), c |-> c + 1, h |-> TRUE]
VNat64(c, h) ==      \* next_u64
  IF Class = "w32"   \* next_u64_via_u32: x = next_u32(); y = next_u32(); (y << 32) | x
  THEN LET x == VNat32(c, h)  y == VNat32(x.c, x.h)
       IN [o |-> x.o \o y.o, c |-> y.c, h |-> y.h]
  ELSE [o |-> Bytes(0, c, 0, 7), c |-> c + 1, h |-> FALSE]                  \* JitterRng clears the flag

(* fill_bytes_via_next *)
RECURSIVE ViaLoop(_, _, _, _)
ViaLoop(c, h, left, o) ==
  IF left >= 8 THEN LET r == VNat64(c, h) IN ViaLoop(r.c, r.h, left - 8, o \o r.o)
  ELSE IF left > 4 THEN LET r == VNat64(c, h) IN [o |-> o \o Take(r.o, left), c |-> r.c, h |-> r.h]
  ELSE IF left > 0 THEN LET r == VNat32(c, h) IN [o |-> o \o Take(r.o, left), c |-> r.c, h |-> r.h]
  ELSE [o |-> o, c |-> c, h |-> h]
VR(s, r) == R(s.idx, r.h, r.c, r.o)

(* ------------------------------------------------------------------ *)
StepU32(s) == CASE Mode = "blk32" -> B32U32(s) [] Mode = "blk64" -> B64U32(s) [] OTHER -> VR(s, VNat32(s.blk, s.half))
StepU64(s) == CASE Mode = "blk32" -> B32U64(s) [] Mode = "blk64" -> B64U64(s) [] OTHER -> VR(s, VNat64(s.blk, s.half))
StepFill(s, n) == CASE Mode = "blk32" -> B32Fill(s, n) [] Mode = "blk64" -> B64Fill(s, n)
                    [] OTHER -> VR(s, ViaLoop(s.blk, s.half, n, <<>>))
InitState == [idx |-> IF Mode = "via" THEN 0 ELSE BufLen, half |-> FALSE, blk |-> 0]    \* BlockRng::new: index = results.len()

Cur == [idx |-> idx, half |-> half, blk |-> blk]
Apply(r) == idx' = r.idx /\ half' = r.half /\ blk' = r.blk /\ out' = r.out
NextU32 == Apply(StepU32(Cur))
NextU64 == Apply(StepU64(Cur))
FillBytes(n) == Apply(StepFill(Cur, n))

Init == idx = InitState.idx /\ half = InitState.half /\ blk = InitState.blk /\ out = <<>>
Next == NextU32 \/ NextU64 \/ \E n \in Fills : FillBytes(n)
Spec == Init /\ [][Next]_vars

Bound == blk <= MaxBlk
(* `out` is an observation of the last call: it does not influence the future,  *)
(* so model checking identifies states that differ only in it                   *)
View == <<idx, half, blk>>
TypeOK == /\ idx \in 0..BufLen /\ half \in BOOLEAN /\ blk \in Nat
          /\ (Mode = "blk32" => ~half)
          /\ (half /\ Mode = "blk64" => idx >= 1)

(* refinement: the abstract stream position and pending flag *)
PosOf == IF Mode = "via" THEN blk ELSE (blk - 1) * BufLen + idx
S == INSTANCE Stream WITH pos <- PosOf, pend <- (IF half THEN 1 ELSE 0), out <- out
Refines == S!SSpecChk          \* equivalent to S!SSpec, see Stream
NoSkipNoRepeat == S!NoSkipNoRepeat
=============================================================================

------------------------------- MODULE ApiImpl -------------------------------
(***************************************************************************)
(* Implementation-shaped model of how the crates build next_u32 / next_u64 *)
(* / fill_bytes (C05), one action per public call, written after the code:  *)
(*                                                                         *)
(*  * rand_core::block::BlockRng   (Hc128Rng, IsaacRng)     Mode = "blk32"  *)
(*  * rand_core::block::BlockRng64 (Isaac64Rng)             Mode = "blk64"  *)
(*  * rand_core::impls::{next_u64_via_u32, fill_bytes_via_next} over a      *)
(*    per-type next_u32/next_u64 (xoshiro family, XorShiftRng, JitterRng)   *)
(*                                                          Mode = "via"    *)
(*                                                                         *)
(* Variables: idx, half  — BlockRng's index / BlockRng64's half_used (for   *)
(*                         Mode "via": half = JitterRng's data_half_used,   *)
(*                         idx unused = 0)                                  *)
(*            blk        — number of core.generate() calls so far (blocks); *)
(*                         for Mode "via": number of native steps so far    *)
(*            out        — result of the last call as byte-range            *)
(*                         descriptors <<src, word, lo, hi>> (see Stream)   *)
(* The refinement  ApiImpl => Stream  under                                 *)
(*     pos  <- IF block mode THEN (blk-1)*BufLen + idx ELSE blk,  pend <- half *)
(* is checked by TLC (mc/MC_Api*.cfg) for the real buffer lengths.          *)
(***************************************************************************)
EXTENDS Integers, Sequences, SequencesExt, TLC
CONSTANTS Mode,     \* "blk32" | "blk64" | "via"
          Class,    \* the Stream class this generator claims (see Stream)
          BufLen,      \* results buffer length in words (16 or 256); unused for "via"
          Fills,    \* the set of fill_bytes lengths explored
          MaxBlk    \* state constraint: blocks / native steps explored
VARIABLES idx, half, blk, out
vars == <<idx, half, blk, out>>

WB == IF Class \in {"w32", "b32"} THEN 4 ELSE 8
Bytes(src, w, lo, hi) == << <<src, w, lo, hi>> >>
DLen(d) == d[4] - d[3] + 1
NBytes(o) == FoldLeft(LAMBDA acc, d : acc + DLen(d), 0, o)
Take(o, n) ==          \* the first n bytes of a descriptor sequence (chunk[..n])
  FoldLeft(LAMBDA acc, d :
             LET have == NBytes(acc) IN
             IF have >= n THEN acc
             ELSE IF have + DLen(d) <= n THEN Append(acc, d)
             ELSE Append(acc, <<d[1], d[2], d[3], d[3] + (n - have) - 1>>),
           <<>>, o)
(* stream word number of results[i] of the current block (0-based i) *)
WordNo(b, i) == (b - 1) * BufLen + i

(* ------------------------------------------------------------------ *)
(* BlockRng<R: Item = u32>                                             *)
(* ------------------------------------------------------------------ *)
B32NextU32 ==
  LET gen == idx >= BufLen                        \* generate_and_set(0)
      b   == IF gen THEN blk + 1 ELSE blk
      i   == IF gen THEN 0 ELSE idx
  IN /\ out' = Bytes(0, WordNo(b, i), 0, 3)
     /\ idx' = i + 1 /\ blk' = b /\ UNCHANGED half

B32NextU64 ==
  IF idx < BufLen - 1 THEN                        \* both words in the buffer
       /\ out' = Bytes(0, WordNo(blk, idx), 0, 3) \o Bytes(0, WordNo(blk, idx + 1), 0, 3)
       /\ idx' = idx + 2 /\ UNCHANGED <<blk, half>>
  ELSE IF idx >= BufLen THEN                      \* generate_and_set(2); read_u64(results, 0)
       /\ out' = Bytes(0, WordNo(blk + 1, 0), 0, 3) \o Bytes(0, WordNo(blk + 1, 1), 0, 3)
       /\ idx' = 2 /\ blk' = blk + 1 /\ UNCHANGED half
  ELSE                                         \* x = results[len-1]; generate_and_set(1); y = results[0]
       /\ out' = Bytes(0, WordNo(blk, BufLen - 1), 0, 3) \o Bytes(0, WordNo(blk + 1, 0), 0, 3)
       /\ idx' = 1 /\ blk' = blk + 1 /\ UNCHANGED half

(* fill_via_chunks(src = results[i..], dest of `left` bytes): <<consumed words, filled bytes>> *)
Chunks(i, left, wb) ==
  LET avail == BufLen - i
      full  == IF left \div wb < avail THEN left \div wb ELSE avail     \* zipped.len()
      rem   == left - full * wb
  IN IF full < avail /\ rem > 0 /\ rem < wb THEN <<full + 1, full * wb + rem>>
     ELSE <<full, full * wb>>

(* the while loop of fill_bytes, for word size wb; acc = <<i, b, read_len, out>> *)
RECURSIVE FillLoop(_, _, _, _, _, _)
FillLoop(i, b, rd, n, o, wb) ==
  IF rd >= n THEN <<i, b, o>>
  ELSE LET gen == i >= BufLen
           b2  == IF gen THEN b + 1 ELSE b
           i2  == IF gen THEN 0 ELSE i
           c   == Chunks(i2, n - rd, wb)
           \* c[1] words consumed; the last one partially if c[2] is not a multiple of wb
           o2  == o \o TLCEval([j \in 1..c[1] |->
                          <<0, WordNo(b2, i2 + j - 1), 0,
                            IF j * wb <= c[2] THEN wb - 1 ELSE (c[2] - (j - 1) * wb) - 1>>])
       IN FillLoop(i2 + c[1], b2, rd + c[2], n, o2, wb)

B32Fill(n) ==
  LET r == FillLoop(idx, blk, 0, n, <<>>, 4)
  IN /\ idx' = r[1] /\ blk' = r[2] /\ out' = r[3] /\ UNCHANGED half

(* ------------------------------------------------------------------ *)
(* BlockRng64<R: Item = u64>                                           *)
(* ------------------------------------------------------------------ *)
B64NextU32 ==
  LET index0 == idx - (IF half THEN 1 ELSE 0)
      gen    == index0 >= BufLen
      b      == IF gen THEN blk + 1 ELSE blk
      index  == IF gen THEN 0 ELSE index0
      i1     == IF gen THEN 0 ELSE idx          \* self.index after the refill branch
      h1     == IF gen THEN FALSE ELSE half
      lo     == IF h1 THEN 4 ELSE 0             \* shift = 32 * half_used
      h2     == ~h1
  IN /\ out' = Bytes(0, WordNo(b, index), lo, lo + 3)
     /\ half' = h2
     /\ idx' = i1 + (IF h2 THEN 1 ELSE 0)
     /\ blk' = b

B64NextU64 ==
  LET gen == idx >= BufLen
      b   == IF gen THEN blk + 1 ELSE blk
      i   == IF gen THEN 0 ELSE idx
  IN /\ out' = Bytes(0, WordNo(b, i), 0, 7)
     /\ idx' = i + 1 /\ blk' = b /\ half' = FALSE

B64Fill(n) ==
  LET r == FillLoop(idx, blk, 0, n, <<>>, 8)
  IN /\ idx' = r[1] /\ blk' = r[2] /\ out' = r[3] /\ half' = FALSE

(* ------------------------------------------------------------------ *)
(* via-next generators: blk counts native steps; idx is unused (0)     *)
(* ------------------------------------------------------------------ *)
(* the type's own next_u32 / next_u64, as [o, c (new count), h (new flag)] *)
VNat32(c, h) ==      \* next_u32
  CASE Class = "w32" -> [o |-> Bytes(0, c, 0, 3), c |-> c + 1, h |-> h]
    [] Class = "hi"  -> [o |-> Bytes(0, c, 4, 7), c |-> c + 1, h |-> h]    \* (next_u64() >> 32) as u32
    [] Class = "lo"  -> [o |-> Bytes(0, c, 0, 3), c |-> c + 1, h |-> h]    \* next_u64() as u32
    [] Class = "sm"  -> [o |-> Bytes(1, c, 0, 3), c |-> c + 1, h |-> h]    \* own finalizer, same counter step
    [] Class = "half" ->                                                   \* JitterRng::next_u32
         IF h THEN [o |-> Bytes(0, c - 1, 4, 7), c |-> c, h |-> FALSE]
              ELSE [o |-> Bytes(0, c, 0, 3), c |-> c + 1, h |-> TRUE]
VNat64(c, h) ==      \* next_u64
  IF Class = "w32"   \* next_u64_via_u32: x = next_u32(); y = next_u32(); (y << 32) | x
  THEN LET x == VNat32(c, h)  y == VNat32(x.c, x.h)
       IN [o |-> x.o \o y.o, c |-> y.c, h |-> y.h]
  ELSE [o |-> Bytes(0, c, 0, 7), c |-> c + 1, h |-> FALSE]                  \* JitterRng clears the flag

(* fill_bytes_via_next *)
RECURSIVE ViaLoop(_, _, _, _)
ViaLoop(c, h, left, o) ==
  IF left >= 8 THEN LET r == VNat64(c, h) IN ViaLoop(r.c, r.h, left - 8, o \o r.o)
  ELSE IF left > 4 THEN LET r == VNat64(c, h) IN [o |-> o \o Take(r.o, left), c |-> r.c, h |-> r.h]
  ELSE IF left > 0 THEN LET r == VNat32(c, h) IN [o |-> o \o Take(r.o, left), c |-> r.c, h |-> r.h]
  ELSE [o |-> o, c |-> c, h |-> h]

VApply(r) == /\ out' = r.o /\ blk' = r.c /\ half' = r.h /\ UNCHANGED idx
VNextU32 == VApply(VNat32(blk, half))
VNextU64 == VApply(VNat64(blk, half))
VFill(n) == VApply(ViaLoop(blk, half, n, <<>>))

(* ------------------------------------------------------------------ *)
NextU32 == CASE Mode = "blk32" -> B32NextU32 [] Mode = "blk64" -> B64NextU32 [] OTHER -> VNextU32
NextU64 == CASE Mode = "blk32" -> B32NextU64 [] Mode = "blk64" -> B64NextU64 [] OTHER -> VNextU64
FillBytes(n) == CASE Mode = "blk32" -> B32Fill(n) [] Mode = "blk64" -> B64Fill(n) [] OTHER -> VFill(n)

Init == /\ idx = (IF Mode = "via" THEN 0 ELSE BufLen)     \* BlockRng::new: index = results.len()
        /\ half = FALSE /\ blk = 0 /\ out = <<>>
Next == NextU32 \/ NextU64 \/ \E n \in Fills : FillBytes(n)
Spec == Init /\ [][Next]_vars

Bound == blk <= MaxBlk
(* `out` is an observation of the last call: it does not influence the future,  *)
(* so model checking identifies states that differ only in it                   *)
View == <<idx, half, blk>>
TypeOK == /\ idx \in 0..BufLen /\ half \in BOOLEAN /\ blk \in Nat
          /\ (Mode = "blk32" => ~half)
          /\ (half /\ Mode = "blk64" => idx >= 1)

(* refinement: the abstract stream position and pending flag *)
PosOf == IF Mode = "via" THEN blk ELSE (blk - 1) * BufLen + idx
S == INSTANCE Stream WITH pos <- PosOf, pend <- (IF half THEN 1 ELSE 0), out <- out
Refines == S!SSpecChk          \* equivalent to S!SSpec, see Stream
NoSkipNoRepeat == S!NoSkipNoRepeat
=============================================================================

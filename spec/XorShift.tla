------------------------------ MODULE XorShift ------------------------------
(***************************************************************************)
(* Layer 1 reference: Marsaglia, "Xorshift RNGs" (2003), the xor128        *)
(* generator of the summary section:                                       *)
(*    t = x ^ (x << 11); x = y; y = z; z = w;                              *)
(*    return w = w ^ (w >> 19) ^ (t ^ (t >> 8));                           *)
(* state <<x,y,z,w>> of 32-bit words                                       *)
(***************************************************************************)
EXTENDS Words

XsStep(s) ==
  LET x == s[1]  w == s[4]
      t == XorW(x, ShlW(x, 11))
      nw == XorW(XorW(w, ShrW(w, 19)), XorW(t, ShrW(t, 8)))
  IN << s[2], s[3], w, nw >>
XsNext(s) == <<XsStep(s), XsStep(s)[4]>>            \* output is the new w
XsFromSeed(seed) == WordsOfBytes(seed, 4)
XsBadSeed == <<<<\h5EED, \h0BAD>>, <<\h5EED, \h0BAD>>, <<\h5EED, \h0BAD>>, <<\h5EED, \h0BAD>>>>     \* four words 0x0BAD5EED
=============================================================================

--------------------------------- MODULE Gf2 ---------------------------------
(***************************************************************************)
(* GF(2) linear algebra and polynomial arithmetic for the certificate      *)
(* checks (C06, C07, C15).  An n-bit vector / polynomial of degree < n is  *)
(* a sequence of n/16 limbs, bit k (coefficient of x^k) being bit k%16 of  *)
(* limb k\div16 + 1 — the same layout as a machine word of module Words,    *)
(* so state words concatenate into state vectors without re-encoding.      *)
(***************************************************************************)
EXTENDS Words

VZero(nl) == Zero(nl)
VIsZero(a) == IsZero(a)
VXor(a, b) == XorW(a, b)
VBit(a, k) == BitAt(a, k)
VUnit(nl, k) == TLCEval([i \in 1..nl |-> IF i = (k \div 16) + 1 THEN Pow2(k % 16) ELSE 0])
(* concatenate words (each a limb sequence) into one vector, first word lowest *)
VCat(ws) == FlattenSeq(ws)
(* index of the highest set bit, -1 for the zero vector *)
VTop(a) ==
  LET n == Len(a)
      step(acc, i) == IF acc >= 0 THEN acc
                      ELSE IF a[n + 1 - i] # 0 THEN 16 * (n - i) + BitLen16(a[n + 1 - i]) - 1 ELSE -1
  IN FoldLeft(step, -1, Idx(n))

(* ---- rank by xor-basis insertion ------------------------------------------------- *)
(* basis: sequence indexed by leading-bit position + 1; the zero vector = empty slot  *)
Insert(basis, v0) ==
  LET nb == Len(basis)
      step(acc, i) ==                       \* acc = <<basis, v, done>>
        IF acc[3] THEN acc
        ELSE LET t == VTop(acc[2]) IN
             IF t < 0 THEN <<acc[1], acc[2], TRUE>>
             ELSE IF VIsZero(acc[1][t + 1]) THEN <<[acc[1] EXCEPT ![t + 1] = acc[2]], acc[2], TRUE>>
             ELSE <<acc[1], VXor(acc[2], acc[1][t + 1]), FALSE>>
  IN FoldLeft(step, <<basis, v0, FALSE>>, Idx(nb + 1))[1]
Rank(vectors, nbits) ==
  LET nl == nbits \div 16
      empty == TLCEval([i \in 1..nbits |-> VZero(nl)])
      basis == FoldLeft(LAMBDA b, v : Insert(b, v), empty, vectors)
  IN FoldLeft(LAMBDA c, i : IF VIsZero(basis[i]) THEN c ELSE c + 1, 0, Idx(nbits))

(* ---- polynomials modulo P = x^n + p(x), p given as an n-bit vector ---------------- *)
(* multiply by x *)
PMulX(a, p) ==
  LET n == Len(a)
      carry == a[n] \div 32768
      sh == TLCEval([i \in 1..n |-> ((a[i] * 2) % B16) + (IF i = 1 THEN 0 ELSE a[i - 1] \div 32768)])
  IN IF carry = 1 THEN VXor(sh, p) ELSE sh
(* table T[i+1] = x^(2i) mod P, i = 0..n-1, built by repeated multiplication by x^2 *)
FrobTable(p, nbits) ==
  LET nl == nbits \div 16
      step(acc, i) == LET nxt == PMulX(PMulX(acc[2], p), p) IN <<Append(acc[1], acc[2]), nxt>>
  IN FoldLeft(step, <<<<>>, VUnit(nl, 0)>>, Idx(nbits))[1]
(* squaring is linear over GF(2): a(x)^2 = sum a_i x^(2i) *)
PSquare(a, tbl) ==
  LET nb == 16 * Len(a)
  IN FoldLeft(LAMBDA acc, i : IF VBit(a, i - 1) = 1 THEN VXor(acc, tbl[i]) ELSE acc, VZero(Len(a)), Idx(nb))
(* general product a*b mod P by shift-and-add over the bits of b, highest first *)
PMul(a, b, p) ==
  LET nb == 16 * Len(a)
  IN FoldLeft(LAMBDA acc, i : LET d == PMulX(acc, p) IN IF VBit(b, nb - i) = 1 THEN VXor(d, a) ELSE d,
              VZero(Len(a)), Idx(nb))
(* x^(2^k) mod P *)
PXPow2(k, p, tbl) == FoldLeft(LAMBDA acc, i : PSquare(acc, tbl), VUnit(Len(p), 1), Idx(k))
(* x^E mod P for an exponent given as a bit sequence, most significant bit first *)
PXPow(ebits, p, tbl) ==
  FoldLeft(LAMBDA acc, b : LET s == PSquare(acc, tbl) IN IF b = 1 THEN PMulX(s, p) ELSE s,
           VUnit(Len(p), 0), ebits)
=============================================================================

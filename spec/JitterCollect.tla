---------------------------- MODULE JitterCollect ----------------------------
(***************************************************************************)
(* One entropy collection of JitterRng (gen_entropy) as a state machine    *)
(* with one action per timer-visible step, the way the code takes them:    *)
(*   Prime          one reading primes prev_time                           *)
(*   Measure(out)   three readings (memory-walk loop count, time stamp,    *)
(*                  LFSR loop count); the delta is folded; out = "stuck"   *)
(*                  or "ok" is the result of the stuck test; the FIRST     *)
(*                  measurement only primes the test and never counts      *)
(*   StirReturn     when `rounds` measurements were accepted: stir, return *)
(* The timer is the environment: it decides whether a measurement is       *)
(* stuck.  What C12 and C14 say about a collection:                        *)
(*   - readings consumed = 1 + 3 * measurements, exactly (ReadsExact);     *)
(*   - it returns only after exactly `rounds` accepted measurements plus   *)
(*     the priming one (ReturnsOnlyWhenCollected), and at least            *)
(*     1 + 3 * (rounds + 1) readings (C16's "reads the timer at least      *)
(*     rounds times");                                                     *)
(*   - the pool is rotated exactly once per non-stuck measurement          *)
(*     (including a non-stuck priming one) and stirred exactly once;       *)
(*   - the call may fail to return only while the timer stays stuck: under *)
(*     a timer that is not stuck forever (strong fairness of non-stuck     *)
(*     measurements) it terminates (Terminates).                           *)
(***************************************************************************)
EXTENDS Integers, TLC
CONSTANTS Rounds, MaxStuck      \* MaxStuck bounds consecutive stuck measurements explored
VARIABLES pc, reads, measures, accepted, rotations, stirs, stuckRun
vars == <<pc, reads, measures, accepted, rotations, stirs, stuckRun>>

Init == pc = "prime" /\ reads = 0 /\ measures = 0 /\ accepted = 0 /\ rotations = 0 /\ stirs = 0 /\ stuckRun = 0
Prime == pc = "prime" /\ pc' = "measure" /\ reads' = reads + 1
         /\ UNCHANGED <<measures, accepted, rotations, stirs, stuckRun>>
Measure(out) ==
  /\ pc = "measure" /\ accepted < Rounds
  /\ out = "stuck" => stuckRun < MaxStuck
  /\ reads' = reads + 3 /\ measures' = measures + 1
  /\ rotations' = IF out = "ok" THEN rotations + 1 ELSE rotations
  /\ accepted' = IF out = "ok" /\ measures >= 1 THEN accepted + 1 ELSE accepted     \* the priming measurement never counts
  /\ stuckRun' = IF out = "stuck" THEN stuckRun + 1 ELSE 0
  /\ UNCHANGED <<pc, stirs>>
StirReturn == pc = "measure" /\ accepted = Rounds /\ measures >= 1
              /\ pc' = "done" /\ stirs' = stirs + 1
              /\ UNCHANGED <<reads, measures, accepted, rotations, stuckRun>>
Next == Prime \/ Measure("ok") \/ Measure("stuck") \/ StirReturn
Spec == Init /\ [][Next]_vars /\ WF_vars(Prime) /\ WF_vars(StirReturn) /\ SF_vars(Measure("ok"))

ReadsExact == reads = (IF pc = "prime" THEN 0 ELSE 1) + 3 * measures
ReturnsOnlyWhenCollected == pc = "done" => accepted = Rounds /\ measures >= Rounds + 1 /\ reads >= 1 + 3 * (Rounds + 1) /\ stirs = 1
RotationsMatch == rotations <= measures /\ rotations >= accepted
StirOnlyAtEnd == pc # "done" => stirs = 0
Terminates == <>(pc = "done")
=============================================================================

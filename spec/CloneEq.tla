------------------------------- MODULE CloneEq -------------------------------
(***************************************************************************)
(* C10 / C11 on the abstract API machine: several instances of one buffered *)
(* generator type, each [sid (which seed), idx, half, blk], driven by the   *)
(* step functions of module ApiImpl, with Clone, ==, serialize/deserialize. *)
(*                                                                         *)
(* == is modelled AS THE CODE DEFINES IT (EqMode):                         *)
(*   "derived"     all fields (derive(PartialEq) types)                    *)
(*   "core_index"  Hc128Rng: core (a function of seed and number of        *)
(*                 generate calls) and buffer index; the buffer itself is  *)
(*                 not compared                                            *)
(*   "core_only"   negative control: the index comparison dropped          *)
(* Two instances have the same future iff they read the same stream at the *)
(* same position with the same pending flag (module Stream: every result   *)
(* is a function of seed, pos and pend; MC_Api proves the refinement).     *)
(* SerMode "full" snapshots every field; "nohalf" is the negative control  *)
(* of C11 (half_used not serialized).                                      *)
(***************************************************************************)
EXTENDS Integers, Sequences, SequencesExt, FiniteSets, TLC
CONSTANTS Mode, Class, BufLen, Fills, MaxBlk, EqMode, SerMode, Inst, Seeds
A == INSTANCE ApiImpl WITH idx <- 0, half <- FALSE, blk <- 0, out <- <<>>
VARIABLES gen,      \* gen[g] = [alive, sid, idx, half, blk]
          snap,     \* snap[g] = state serialized last (Dead if never)
          note      \* ghost: what the last step established, checked by the invariants
vars == <<gen, snap, note>>
Dead == [alive |-> FALSE, sid |-> 0, idx |-> 0, half |-> FALSE, blk |-> 0]
St(g) == [idx |-> gen[g].idx, half |-> gen[g].half, blk |-> gen[g].blk]
Pos(s) == IF Mode = "via" THEN s.blk ELSE (s.blk - 1) * BufLen + s.idx
SameFuture(x, y) == x.sid = y.sid /\ Pos(x) = Pos(y) /\ x.half = y.half
EqCode(x, y) ==
  CASE EqMode = "derived"    -> x.sid = y.sid /\ x.idx = y.idx /\ x.half = y.half /\ x.blk = y.blk
    [] EqMode = "core_index" -> x.sid = y.sid /\ x.blk = y.blk /\ x.idx = y.idx
    [] EqMode = "core_only"  -> x.sid = y.sid /\ x.blk = y.blk

Seed(g, s) == /\ ~gen[g].alive
              /\ gen' = [gen EXCEPT ![g] = [alive |-> TRUE, sid |-> s, idx |-> A!InitState.idx, half |-> FALSE, blk |-> 0]]
              /\ note' = <<"seed">> /\ UNCHANGED snap
Step(g, r) == /\ gen' = [gen EXCEPT ![g].idx = r.idx, ![g].half = r.half, ![g].blk = r.blk]
              /\ note' = <<"op">> /\ UNCHANGED snap
Op(g) == /\ gen[g].alive
         /\ \/ Step(g, A!StepU32(St(g))) \/ Step(g, A!StepU64(St(g)))
            \/ \E n \in Fills : Step(g, A!StepFill(St(g), n))
Clone(g, h) == /\ gen[g].alive /\ ~gen[h].alive
               /\ gen' = [gen EXCEPT ![h] = gen[g]]
               /\ note' = <<"clone", g, h>> /\ UNCHANGED snap
Ser(g) == /\ gen[g].alive /\ snap' = [snap EXCEPT ![g] = gen[g]]
          /\ note' = <<"ser", g, gen[g]>> /\ UNCHANGED gen
De(g, h) == /\ snap[g].alive /\ ~gen[h].alive
            /\ gen' = [gen EXCEPT ![h] = IF SerMode = "nohalf" THEN [snap[g] EXCEPT !.half = FALSE] ELSE snap[g]]
            /\ note' = <<"de", g, h>> /\ UNCHANGED snap

Init == gen = [g \in Inst |-> Dead] /\ snap = [g \in Inst |-> Dead] /\ note = <<"init">>
Next == \E g \in Inst : \/ (\E s \in Seeds : Seed(g, s)) \/ Op(g) \/ Ser(g)
                        \/ \E h \in Inst \ {g} : Clone(g, h) \/ De(g, h)
Spec == Init /\ [][Next]_vars
Bound == \A g \in Inst : gen[g].blk <= MaxBlk

(* ---- C10 ---- *)
EqIsCongruence == \A g, h \in Inst : gen[g].alive /\ gen[h].alive /\ EqCode(gen[g], gen[h]) => SameFuture(gen[g], gen[h])
CloneIsEqual == note[1] = "clone" => EqCode(gen[note[2]], gen[note[3]]) /\ SameFuture(gen[note[2]], gen[note[3]])
(* ---- C11 ---- *)
RestoreIsIdentical == note[1] = "de" => SameFuture(snap[note[2]], gen[note[3]]) /\ EqCode(snap[note[2]], gen[note[3]])
SerDoesNotDisturb == note[1] = "ser" => gen[note[2]] = note[3]
=============================================================================

----------------------------- MODULE SplitMix64 -----------------------------
(***************************************************************************)
(* Layer 1 reference: Vigna's splitmix64.c                                 *)
(*     uint64_t next() { uint64_t z = (x += 0x9e3779b97f4a7c15);           *)
(*       z = (z ^ (z >> 30)) * 0xbf58476d1ce4e5b9;                         *)
(*       z = (z ^ (z >> 27)) * 0x94d049bb133111eb;                         *)
(*       return z ^ (z >> 31); }                                           *)
(* and the dsiutils SplitMix64RandomGenerator.nextInt() 32-bit output:     *)
(* Stafford's "Mix4" variant of the murmurhash3 finalizer, upper 32 bits   *)
(*   z = (z ^ (z >>> 33)) * 0x62a9d9ed799705f5;                            *)
(*   return (int)(((z ^ (z >>> 28)) * 0xcb24d0a5c88c35b3) >>> 32);         *)
(* applied to the same counter step.                                       *)
(***************************************************************************)
EXTENDS Words

H64(h3, h2, h1, h0) == <<h0, h1, h2, h3>>      \* written in reading order of the hex literal
H32(h1, h0) == <<h0, h1>>

PHI == H64(\h9e37, \h79b9, \h7f4a, \h7c15)

SmMix64(z0) ==
  LET z1 == MulW(XorW(z0, ShrW(z0, 30)), H64(\hbf58, \h476d, \h1ce4, \he5b9))
      z2 == MulW(XorW(z1, ShrW(z1, 27)), H64(\h94d0, \h49bb, \h1331, \h11eb))
  IN XorW(z2, ShrW(z2, 31))

SmMix32(z0) ==
  LET z1 == MulW(XorW(z0, ShrW(z0, 33)), H64(\h62a9, \hd9ed, \h7997, \h05f5))
      z2 == MulW(XorW(z1, ShrW(z1, 28)), H64(\hcb24, \hd0a5, \hc88c, \h35b3))
  IN Hi32(z2)

(* one counter step; the state is the counter x (a u64) *)
SmStep(x) == AddW(x, PHI)
SmNext64(x) == <<SmStep(x), SmMix64(SmStep(x))>>     \* <<new state, output>>
SmNext32(x) == <<SmStep(x), SmMix32(SmStep(x))>>

(* the first n 64-bit outputs started at counter x *)
SmStream(x, n) ==
  FoldLeft(LAMBDA acc, i : <<SmStep(acc[1]), Append(acc[2], SmMix64(SmStep(acc[1])))>>,
           <<x, <<>>>>, Idx(n))[2]
=============================================================================

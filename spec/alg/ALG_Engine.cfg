SPECIFICATION Spec
INVARIANT Certificate
CHECK_DEADLOCK FALSE

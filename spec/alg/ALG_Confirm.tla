----------------------------- MODULE ALG_Confirm -----------------------------
(* Confirmation of a collision certificate on the real code: the two tagged   *)
(* events ["confirm", kind, 0] and ["confirm", kind, 1] (inputs 0 and the     *)
(* kernel vector) must have produced the same pool.                           *)
EXTENDS Sequences, Integers, Json, IOUtils, TLC
Rec == ndJsonDeserialize(IOEnv.TRACE)
VARIABLE l
Tagged(i, w) == "tag" \in DOMAIN Rec[i] /\ Rec[i].tag[1] = "confirm" /\ Rec[i].tag[3] = w /\ "obs" \in DOMAIN Rec[i]
Init == l = 1
Next == l <= Len(Rec) /\ l' = l + 1
Spec == Init /\ [][Next]_l
Collides == \E i, j \in 1..Len(Rec) : Tagged(i, 0) /\ Tagged(j, 1) /\ Rec[i].obs.pool = Rec[j].obs.pool
Report == l = Len(Rec) + 1 => PrintT(<<"COLLISION", Collides>>)
=============================================================================

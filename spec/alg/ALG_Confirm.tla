----------------------------- MODULE ALG_Confirm -----------------------------
(* Confirmation of a collision certificate on the real code: the two tagged   *)
(* events ["confirm", kind, 0] and ["confirm", kind, 1] (two different inputs)  *)
(* must have produced the same pool / state image.                            *)
EXTENDS Sequences, Integers, Json, IOUtils, TLC
Rec == ndJsonDeserialize(IOEnv.TRACE)
VARIABLE l
Tagged(i, w) == "tag" \in DOMAIN Rec[i] /\ Rec[i].tag[1] = "confirm" /\ Rec[i].tag[3] = w /\ "obs" \in DOMAIN Rec[i]
Init == l = 1
Next == l <= Len(Rec) /\ l' = l + 1
Spec == Init /\ [][Next]_l
Image(i) == IF "pool" \in DOMAIN Rec[i].obs THEN Rec[i].obs.pool ELSE Rec[i].obs.s      \* jitter pool, or the state image of a plain generator
Collides == \E i, j \in 1..Len(Rec) : Tagged(i, 0) /\ Tagged(j, 1) /\ Image(i) = Image(j)
Report == l = Len(Rec) + 1 => PrintT(<<"COLLISION", Collides>>)
=============================================================================

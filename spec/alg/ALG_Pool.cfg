SPECIFICATION Spec
INVARIANT Bijective
CHECK_DEADLOCK FALSE

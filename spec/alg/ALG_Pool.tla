------------------------------ MODULE ALG_Pool ------------------------------
(***************************************************************************)
(* C15: every step that updates JitterRng's pool is a bijection.           *)
(*                                                                         *)
(* The maps are extracted from the REAL code through the cfg(rngs_verif)   *)
(* accessors; the schedule tags the events:                                *)
(*   ["lp", i]  pool := e_i (0 for i = -1); one LFSR fold of time = c      *)
(*   ["lt", j]  pool := p0;  one LFSR fold of time = e_j (0 for j = -1)    *)
(*   ["st", i]  pool := e_i (0 for i = -1); one stir step                  *)
(*   ["lv", i], ["tv", j]  as "lp", "lt" but through the variable-round    *)
(*              path that entropy collection itself uses (the two loop     *)
(*              count readings are fixed)                                   *)
(*   ["lh", i], ["th", j]  as "lp", "lt" while the high half of a value is  *)
(*              still owed to the caller (between the two next_u32 of a     *)
(*              pair)                                                       *)
(*   ["tp", i], ["tf", i]  pool := e_i; test_timer over a healthy clock     *)
(*              (returns Ok) resp. over a clock with a zero reading at the  *)
(*              fifth probe (gives up early)                                *)
(*   ["nx", i]  pool := e_i; one whole collection (next_u64: priming       *)
(*              measurement, `rounds` accepted measurements with stuck ones *)
(*              in between, stir) over the same readings every time: "two  *)
(*              different pool contents can never be merged into the same  *)
(*              output"                                                     *)
(*   ["aff", kind, k, "a"|"b"|"ab"]  random triples a, b, a xor b          *)
(* Nothing here compares the code with Jitter.tla (that is C12's job): the *)
(* decision is about the code's own maps.  For each map TLC checks that it *)
(* is affine on the recorded triples, f(a)+f(b)+f(a+b) = f(0), and         *)
(* computes the GF(2) rank of its linear part from the recorded basis      *)
(* images.  For an affine map of GF(2)^64, rank 64 is bijectivity on all   *)
(* 2^64 values; a deficient rank yields a kernel vector k, i.e. a concrete *)
(* collision f(k) = f(0) that is then replayed on the real code.           *)
(* The rotation by 7 is a bit permutation of the specification's operator  *)
(* (bound to the code by C12); its rank is checked too.                    *)
(***************************************************************************)
EXTENDS Jitter, Gf2, FiniteSets, Json, IOUtils
Rec == ndJsonDeserialize(IOEnv.TRACE)
VARIABLES l, imgs
vars == <<l, imgs>>
Ev == Rec[l]
Has(r, f) == f \in DOMAIN r

Next == /\ l <= Len(Rec) /\ l' = l + 1
        /\ IF Has(Ev, "tag") /\ Has(Ev, "obs") /\ Ev.e \in {"timer_stats", "stir", "next_u64", "test_timer"} /\ ~Has(Ev, "panic")
           THEN imgs' = (Ev.tag :> Ev.obs.pool) @@ imgs ELSE UNCHANGED imgs
Init == l = 1 /\ imgs = <<>>
Spec == Init /\ [][Next]_vars
Done == l = Len(Rec) + 1

Kinds == {"lp", "lt", "st", "lv", "tv", "nx", "lh", "th", "tp", "tf"}
Complete(kind) == \A i \in -1..63 : <<kind, i>> \in DOMAIN imgs
Col(kind, i) == VXor(imgs[<<kind, i>>], imgs[<<kind, -1>>])          \* linear part: f(e_i) xor f(0)
AffTags(kind) == {t \in DOMAIN imgs : Len(t) = 4 /\ t[1] = "aff" /\ t[2] = kind /\ t[4] = "a"}
Affine(kind) ==
  \A t \in AffTags(kind) :
     VXor(VXor(imgs[t], imgs[<<"aff", kind, t[3], "b">>]), imgs[<<"aff", kind, t[3], "ab">>]) = imgs[<<kind, -1>>]

(* Gaussian elimination on augmented vectors <<image (4 limbs), combination (4 limbs)>>; returns     *)
(* <<rank, kernel vector or zero>>: a combination of inputs whose image is zero                      *)
Elim(kind) ==
  LET empty == TLCEval([i \in 1..64 |-> <<VZero(4), VZero(4)>>])
      ins(acc, i) ==            \* acc = <<basis, kernel>>
        LET red == FoldLeft(LAMBDA a, s :          \* a = <<img, comb, done, basis>>
                     IF a[3] THEN a
                     ELSE LET t == VTop(a[1]) IN
                          IF t < 0 THEN <<a[1], a[2], TRUE, a[4]>>
                          ELSE IF VIsZero(a[4][t + 1][1]) THEN <<a[1], a[2], TRUE, [a[4] EXCEPT ![t + 1] = <<a[1], a[2]>>]>>
                          ELSE <<VXor(a[1], a[4][t + 1][1]), VXor(a[2], a[4][t + 1][2]), FALSE, a[4]>>,
                     <<Col(kind, i - 1), VUnit(4, i - 1), FALSE, acc[1]>>, Idx(65))
        IN <<red[4], IF VIsZero(red[1]) /\ VIsZero(acc[2]) THEN red[2] ELSE acc[2]>>
      fin == FoldLeft(ins, <<empty, VZero(4)>>, Idx(64))
  IN << FoldLeft(LAMBDA c, i : IF VIsZero(fin[1][i][1]) THEN c ELSE c + 1, 0, Idx(64)), fin[2] >>

SpecRotRank == Rank(TLCEval([i \in 1..64 |-> Rotl7(VUnit(4, i - 1))]), 64)
Result(kind) == IF ~Complete(kind) THEN <<kind, "incomplete", 0, VZero(4), 0>>
                ELSE IF ~Affine(kind) THEN <<kind, "not-affine", 0, VZero(4), Cardinality(AffTags(kind))>>
                ELSE LET e == Elim(kind) IN <<kind, "affine", e[1], e[2], Cardinality(AffTags(kind))>>
Bijective ==
  Done => LET r == [k \in Kinds |-> Result(k)] IN
          /\ PrintT(<<"RESULT", r["lp"], r["lt"], r["st"], r["lv"], r["tv"], r["nx"], r["lh"], r["th"], r["tp"], r["tf"], SpecRotRank>>)
          /\ \A k \in Kinds : r[k][2] = "affine" => r[k][3] = 64
          /\ SpecRotRank = 64
=============================================================================

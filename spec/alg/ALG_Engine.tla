----------------------------- MODULE ALG_Engine -----------------------------
(***************************************************************************)
(* Certificate checking for the GF(2)-linear engines (C06, C07).           *)
(*                                                                         *)
(* The engine T is the step function of the TLA+ reference (Xoshiro.tla,   *)
(* XorShift.tla) acting on the n-bit state vector (words concatenated,     *)
(* word 0 lowest).  An untrusted helper supplies hints: the coefficients p *)
(* of a monic polynomial P = x^n + p(x), the prime factors q of 2^n - 1    *)
(* and the cofactors (2^n - 1)/q.  TLC checks (IOEnv.TASK selects a part   *)
(* so that the parts run in parallel):                                     *)
(*                                                                         *)
(*  "krylov"  K_i = T^i e0, i < n, have rank n (e0 is a cyclic vector) and *)
(*            sum p_i K_i + K_n = 0, hence P(T) = 0 and P is the minimal   *)
(*            and characteristic polynomial of T; the map  f |-> f(T) e0   *)
(*            is an isomorphism GF(2)[x]/P -> V carrying multiplication by *)
(*            x to T.                                                      *)
(*  "xpow"    x^(2^n) = x in GF(2)[x]/P, and the listed primes multiply to *)
(*            2^n - 1.                                                     *)
(*  "order:j" cofactor_j * q_j = 2^n - 1 and x^cofactor_j # 1.             *)
(*            With "xpow" for all j: x has order exactly 2^n - 1, so the   *)
(*            2^n - 1 non-zero residues are all units: GF(2)[x]/P is a     *)
(*            field, x is primitive, and T permutes the non-zero states in *)
(*            one cycle of length 2^n - 1 (C07).                           *)
(*  "jump"    x^(2^(n/2)) = JUMP(x) and x^(2^(3n/4)) = LONG_JUMP(x), the   *)
(*            polynomials whose coefficients are the bits of the published *)
(*            jump constants (word 0 lowest, bit 0 lowest): since the      *)
(*            reference jump() computes J(T) s = sum_{bit i set} T^i s,    *)
(*            jump = T^(2^(n/2)) and long_jump = T^(2^(3n/4)) on ALL       *)
(*            states, and both commute with stepping (C06).                *)
(***************************************************************************)
EXTENDS Alg, Gf2, FiniteSets, Json, IOUtils
Hints == JsonDeserialize(IOEnv.HINTS)
Engine == IOEnv.ENGINE
Task == IOEnv.TASK
H == Hints[Engine]
NBits == H.n                                   \* state bits
NLimb == NBits \div 16
P == H.p
IsExtracted == "cols" \in DOMAIN H          \* a transition matrix extracted from the code (columns = images of unit vectors)
EKind == CASE IsExtracted -> H.kind
          [] Engine = "xoroshiro64" -> "Xoroshiro64Star" [] Engine = "xoroshiro128" -> "Xoroshiro128Plus"
          [] Engine = "xoroshiro128pp" -> "Xoroshiro128PlusPlus" [] Engine = "xoshiro128" -> "Xoshiro128Plus"
          [] Engine = "xoshiro256" -> "Xoshiro256Plus" [] Engine = "xoshiro512" -> "Xoshiro512Plus"
          [] Engine = "xorshift128" -> "XorShiftRng"
WLimb == OutLimbs(EKind)
WordsOf(v) == TLCEval([i \in 1..(Len(v) \div WLimb) |-> SubSeq(v, (i - 1) * WLimb + 1, i * WLimb)])
MatVec(v) == FoldLeft(LAMBDA acc, i : IF VBit(v, i - 1) = 1 THEN VXor(acc, H.cols[i]) ELSE acc, VZero(NLimb), Idx(NBits))
T(v) == IF IsExtracted THEN MatVec(v)
        ELSE VCat(IF EKind = "XorShiftRng" THEN XsStep(WordsOf(v)) ELSE XoStep(EKind, WordsOf(v)))
E0 == IF "e0" \in DOMAIN H THEN H.e0 ELSE VUnit(NLimb, 0)
Xp == VUnit(NLimb, 1)                          \* the residue x
OneP == VUnit(NLimb, 0)                        \* the residue 1

(* ---- krylov ---- *)
KrylovSeq(u) == FoldLeft(LAMBDA acc, i : Append(acc, T(acc[Len(acc)])), <<E0>>, Idx(NBits))     \* K_0 .. K_n
KrylovOk(u) ==      \* (the dummy parameter keeps TLC from pre-evaluating this as a constant in every run)
  LET K == KrylovSeq(u)
      r == Rank(SubSeq(K, 1, NBits), NBits)
      comb == FoldLeft(LAMBDA acc, i : IF VBit(P, i - 1) = 1 THEN VXor(acc, K[i]) ELSE acc, K[NBits + 1], Idx(NBits))
  IN /\ PrintT(<<"KRYLOV", Engine, "rank", r, "P(T)e0 = 0", VIsZero(comb)>>)
     /\ r = NBits /\ VIsZero(comb)

(* ---- exact big-number products (limb sequences, base 2^16) ---- *)
Ext(a, L) == a \o TLCEval([i \in 1..(L - Len(a)) |-> 0])
BigMul(a, b) == LET L == Len(a) + Len(b) IN MulW(Ext(a, L), Ext(b, L))
AllOnes(L, n) == TLCEval([i \in 1..L |-> IF i <= n \div 16 THEN 65535 ELSE 0])       \* 2^n - 1 on L limbs
IsMersenne(v) == v = AllOnes(Len(v), NBits)

Tbl == FrobTable(P, NBits)
(* ---- xpow ---- *)
XpowOk(u) ==
  LET t == Tbl
      xp == PXPow2(NBits, P, t)
      prod == FoldLeft(LAMBDA acc, q : SubSeq(BigMul(acc, q), 1, NLimb + 1), Ext(FromNat(1, 2), NLimb + 1), H.primes)
  IN /\ PrintT(<<"XPOW", Engine, "x^(2^n) = x", xp = Xp, "primes multiply to 2^n-1", prod = AllOnes(NLimb + 1, NBits), Len(H.primes)>>)
     /\ xp = Xp /\ prod = AllOnes(NLimb + 1, NBits)

(* ---- order:j ---- *)
OrderOk(j) ==
  LET cof == H.cofactors[j]
      q == H.primes[j]
      ebits == TLCEval([i \in 1..NBits |-> VBit(cof, NBits - i)])          \* most significant bit first
      y == PXPow(ebits, P, Tbl)
  IN /\ PrintT(<<"ORDER", Engine, j, "cofactor*q = 2^n-1", IsMersenne(BigMul(cof, q)), "x^cofactor # 1", y # OneP>>)
     /\ IsMersenne(BigMul(cof, q)) /\ y # OneP

(* ---- jump ---- *)
JumpOk(u) ==
  LET t == Tbl
      j == PXPow2(NBits \div 2, P, t)
      lj == PXPow2((3 * NBits) \div 4, P, t)
  IN /\ PrintT(<<"JUMP", Engine, "x^(2^(n/2)) = JUMP", j = VCat(JumpPoly(EKind)), "x^(2^(3n/4)) = LONG_JUMP", lj = VCat(LongJumpPoly(EKind))>>)
     /\ j = VCat(JumpPoly(EKind)) /\ lj = VCat(LongJumpPoly(EKind))

(* ---- for a matrix extracted from the code: is the code's step linear at all?  Recorded pairs   *)
(* (state, next state) of random states must agree with the matrix; the matrix itself may be      *)
(* singular: then `kernel` is a non-zero state that steps to the all-zero state                   *)
LinearOk(u) ==
  LET bad == {i \in 1..Len(H.samples) : MatVec(H.samples[i][1]) # H.samples[i][2]}
      full == Rank(H.cols, NBits)
  IN /\ PrintT(<<"LINEAR", Engine, "samples", Len(H.samples), "disagree", Cardinality(bad), "matrix rank", full>>)
     /\ bad = {}

VARIABLE done
Init == done = FALSE
Next == ~done /\ done' = TRUE
Spec == Init /\ [][Next]_done
Certificate ==
  done => CASE Task = "krylov" -> KrylovOk(done)
            [] Task = "xpow" -> XpowOk(done)
            [] Task = "jump" -> JumpOk(done)
            [] Task = "linear" -> LinearOk(done)
            [] OTHER -> OrderOk(atoi(Task))          \* TASK = "1", "2", ... : order test for prime number j
=============================================================================

------------------------------ MODULE ALG_Seed ------------------------------
(***************************************************************************)
(* C08, the part that quantifies over all 2^64 u64 arguments.              *)
(* seed_from_u64(x) of the xoshiro family takes its seed words from the    *)
(* SplitMix64 outputs Mix(x + (j+1) PHI), j = 0, 1, ...  TLC checks the    *)
(* certificate that Mix is a bijection of 64-bit words:                    *)
(*   - each stage  z ^= z >> k  (k = 30, 27, 31) is GF(2)-linear of rank 64 *)
(*   - each multiplier m has the stated inverse: m * inv = 1 mod 2^64      *)
(* and that Mix(0) = 0.  Hence Mix(y) = 0 only for y = 0: seed word j is   *)
(* zero only for the single argument x_j = -(j+1) PHI.  PHI is odd, so two  *)
(* consecutive counters are never both 0: a seed of two or more 64-bit     *)
(* words is never all zero, and the one-word case (8-byte seeds) falls     *)
(* into the zero-seed remap whose target Mix(PHI) is non-zero.             *)
(* The eight adversarial arguments x_0..x_7 are printed for the corpus.    *)
(***************************************************************************)
EXTENDS SplitMix64, Gf2
VARIABLE done
M1 == H64(\hbf58, \h476d, \h1ce4, \he5b9)
M2 == H64(\h94d0, \h49bb, \h1331, \h11eb)
Inv1 == H64(\h96de, \h1b17, \h3f11, \h9089)
Inv2 == H64(\h3196, \h42b2, \hd24d, \h8ec3)
One == FromNat(1, 4)
StageRank(k) == Rank(TLCEval([i \in 1..64 |-> LET e == VUnit(4, i - 1) IN XorW(e, ShrW(e, k))]), 64)
Adversarial == TLCEval([j \in 1..8 |-> NegW(FoldLeft(LAMBDA a, i : AddW(a, PHI), Zero(4), Idx(j)))])   \* -(j) PHI, j = 1..8
Certificate ==
  /\ StageRank(30) = 64 /\ StageRank(27) = 64 /\ StageRank(31) = 64
  /\ MulW(M1, Inv1) = One /\ MulW(M2, Inv2) = One
  /\ SmMix64(Zero(4)) = Zero(4)
  /\ PHI[1] % 2 = 1
  /\ ~IsZero(SmMix64(PHI))                                          \* the remap target's first word
  /\ \A j \in 1..8 : IsZero(SmMix64(AddW(Adversarial[j], FoldLeft(LAMBDA a, i : AddW(a, PHI), Zero(4), Idx(j)))))
Init == done = FALSE
Next == ~done /\ done' = TRUE /\ PrintT(<<"ADVERSARIAL", Adversarial>>)
Spec == Init /\ [][Next]_done
Inv == done => Certificate
=============================================================================

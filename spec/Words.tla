------------------------------- MODULE Words -------------------------------
(***************************************************************************)
(* Layer 0: fixed-width machine words for TLC.                             *)
(*                                                                         *)
(* TLC integers are 32-bit signed, so a w-bit word is a sequence of 16-bit *)
(* limbs, least significant first: a u32 is <<lo,hi>>, a u64 is            *)
(* <<l0,l1,l2,l3>>.  Every "wrapping" operation of the Rust code is an     *)
(* explicit reduction mod 2^w here; nothing in the specification relies on *)
(* implicit overflow, which is what makes it an oracle for C14/C18.        *)
(* All operators are generic in the number of limbs (Len of the operand).  *)
(***************************************************************************)
EXTENDS Integers, Sequences, SequencesExt, Bitwise, TLC

(* TLC evaluates a function constructor [i \in S |-> e] lazily and re-evaluates *)
(* e on every application; chains of word operations then cost 2^depth.  Every *)
(* constructor below is therefore forced with TLCEval (identity, but strict).   *)
B16 == 65536
Limb == 0..65535

IsWord(a, n) == /\ a \in Seq(Limb) /\ Len(a) = n
U32 == [1..2 -> Limb]
U64 == [1..4 -> Limb]

Idx(n) == TLCEval([i \in 1..n |-> i])            \* <<1,...,n>>, the index sequence for folds
Zero(n) == TLCEval([i \in 1..n |-> 0])
Ones(n) == TLCEval([i \in 1..n |-> 65535])
Zero32 == Zero(2)
Zero64 == Zero(4)

(* small naturals -> word (k < 2^31) *)
FromNat(k, n) == TLCEval([i \in 1..n |-> IF i = 1 THEN k % B16
                                  ELSE IF i = 2 THEN (k \div B16) % B16 ELSE 0])
(* word -> natural; only for words known to fit in 31 bits *)
ToNat(a) == IF Len(a) = 1 THEN a[1] ELSE a[1] + B16 * a[2]

IsZero(a) == \A i \in 1..Len(a) : a[i] = 0

(* -------- bitwise ------------------------------------------------------ *)
XorW(a, b) == TLCEval([i \in 1..Len(a) |-> a[i] ^^ b[i]])
AndW(a, b) == TLCEval([i \in 1..Len(a) |-> a[i] & b[i]])
OrW(a, b)  == TLCEval([i \in 1..Len(a) |-> a[i] | b[i]])
NotW(a)    == TLCEval([i \in 1..Len(a) |-> 65535 - a[i]])

Pow2(k) == 2^k   \* k <= 30

(* bit k (0 = least significant) of word a *)
BitAt(a, k) == shiftR(a[(k \div 16) + 1], k % 16) % 2

(* logical shift left by constant k, 0 <= k < 16*Len(a) *)
ShlW(a, k) ==
  LET n == Len(a)  q == k \div 16  r == k % 16
      L(i) == IF i >= 1 /\ i <= n THEN a[i] ELSE 0
  IN TLCEval([i \in 1..n |->
        IF r = 0 THEN L(i - q)
        ELSE ((L(i - q) * Pow2(r)) % B16) + shiftR(L(i - q - 1), 16 - r)])

(* logical shift right by constant k *)
ShrW(a, k) ==
  LET n == Len(a)  q == k \div 16  r == k % 16
      L(i) == IF i >= 1 /\ i <= n THEN a[i] ELSE 0
  IN TLCEval([i \in 1..n |->
        IF r = 0 THEN L(i + q)
        ELSE shiftR(L(i + q), r) + ((L(i + q + 1) * Pow2(16 - r)) % B16)])

(* rotate left by k (any k >= 0, reduced mod the width) *)
RotlW(a, k0) ==
  LET n == Len(a)  k == k0 % (16 * n)  q == k \div 16  r == k % 16
      L(i) == a[((i - 1) % n) + 1]        \* cyclic limb index
  IN TLCEval([i \in 1..n |->
        IF r = 0 THEN L(i - q + n)
        ELSE ((L(i - q + n) * Pow2(r)) % B16) + shiftR(L(i - q - 1 + 2 * n), 16 - r)])

RotrW(a, k) == RotlW(a, (16 * Len(a)) - (k % (16 * Len(a))))

(* -------- arithmetic mod 2^w ------------------------------------------- *)
(* carries are threaded with FoldLeft (strict, Java-overridden) *)
AddW(a, b) ==
  LET n == Len(a)
      step(acc, i) == LET s == a[i] + b[i] + acc[2]
                      IN <<Append(acc[1], s % B16), s \div B16>>
  IN FoldLeft(step, <<<<>>, 0>>, Idx(n))[1]

(* carry out of a+b (0 or 1): used where the reference works in a wider type *)
AddCarry(a, b) ==
  LET n == Len(a)
      step(acc, i) == LET s == a[i] + b[i] + acc[2]
                      IN <<Append(acc[1], s % B16), s \div B16>>
  IN FoldLeft(step, <<<<>>, 0>>, Idx(n))[2]

NegW(a) == AddW(NotW(a), FromNat(1, Len(a)))
SubW(a, b) == AddW(a, NegW(b))

(* 16x16 -> 32 bit product as <<lo,hi>> without leaving TLC's int range *)
MulLimb(x, y) ==
  LET yl == y % 256  yh == y \div 256
      p0 == x * yl                      \* < 2^24
      p1 == x * yh                      \* < 2^24
      t  == p0 + (p1 % 256) * 256       \* < 2^25
  IN <<t % B16, (p1 \div 256) + (t \div B16)>>

(* full product mod 2^(16n): schoolbook, column sums stay < 2^20 *)
MulW(a, b) ==
  LET n == Len(a)
      P(i, j) == MulLimb(a[i], b[j])
      \* column k (1-based) collects lo of i+j-1 = k and hi of i+j-1 = k-1
      Col(k) ==
        LET idx == Idx(n)
            lo == FoldLeft(LAMBDA acc, i : IF k - i + 1 >= 1 /\ k - i + 1 <= n
                                            THEN acc + P(i, k - i + 1)[1] ELSE acc, 0, idx)
            hi == FoldLeft(LAMBDA acc, i : IF k - i >= 1 /\ k - i <= n
                                            THEN acc + P(i, k - i)[2] ELSE acc, 0, idx)
        IN lo + hi
      step(acc, k) == LET s == Col(k) + acc[2]
                      IN <<Append(acc[1], s % B16), s \div B16>>
  IN FoldLeft(step, <<<<>>, 0>>, Idx(n))[1]

(* comparison (unsigned) *)
LtW(a, b) ==
  LET n == Len(a)
      \* scan from most significant limb
      step(acc, i) == IF acc # 0 THEN acc
                      ELSE IF a[n + 1 - i] < b[n + 1 - i] THEN 1
                      ELSE IF a[n + 1 - i] > b[n + 1 - i] THEN 2 ELSE 0
  IN FoldLeft(step, 0, Idx(n)) = 1

(* -------- width conversion, bytes --------------------------------------- *)
Lo32(a) == <<a[1], a[2]>>                 \* low half of a u64
Hi32(a) == <<a[3], a[4]>>                 \* high half of a u64
Cat64(lo, hi) == <<lo[1], lo[2], hi[1], hi[2]>>   \* (hi << 32) | lo
ZeroExt64(a) == <<a[1], a[2], 0, 0>>
(* sign-extend a u32 (read as i32) to 64 bits *)
SignExt64(a) == IF a[2] >= 32768 THEN <<a[1], a[2], 65535, 65535>> ELSE <<a[1], a[2], 0, 0>>

(* little-endian bytes of a word, and back *)
ToBytesLE(a) == TLCEval([i \in 1..(2 * Len(a)) |->
                   IF i % 2 = 1 THEN a[(i + 1) \div 2] % 256 ELSE a[i \div 2] \div 256])
FromBytesLE(bs) == TLCEval([i \in 1..(Len(bs) \div 2) |-> bs[2 * i - 1] + 256 * bs[2 * i]])

(* a byte string as a sequence of w-byte little-endian words *)
WordsOfBytes(bs, wbytes) ==
  TLCEval([k \in 1..(Len(bs) \div wbytes) |->
      FromBytesLE(SubSeq(bs, (k - 1) * wbytes + 1, k * wbytes))])
BytesOfWords(ws) == TLCEval(FlattenSeq(TLCEval([k \in 1..Len(ws) |-> ToBytesLE(ws[k])])))

(* number of significant bits of a word: 0 for 0, else floor(log2)+1 *)
BitLen16(x) == IF x = 0 THEN 0 ELSE
  CHOOSE k \in 1..16 : Pow2(k - 1) <= x /\ x < Pow2(k)
BitLenW(a) ==
  LET n == Len(a)
      step(acc, i) == IF acc # 0 THEN acc
                      ELSE IF a[n + 1 - i] # 0 THEN 16 * (n - i) + BitLen16(a[n + 1 - i]) ELSE 0
  IN FoldLeft(step, 0, Idx(n))
=============================================================================

------------------------------ MODULE JitterApi ------------------------------
(***************************************************************************)
(* C16: the hand-out discipline of JitterRng, with collected 64-bit values *)
(* as abstract tokens.                                                     *)
(*                                                                         *)
(* The first part of the module is the PLAN of each public call: which     *)
(* collections it performs and which part of which value it returns.  The  *)
(* plans are pure operators; the trace specification Trace_Jitter executes *)
(* the very same plans on concrete pools and timer readings, so what TLC   *)
(* proves here about tokens is what is validated on the real JitterRng.    *)
(*                                                                         *)
(* A plan step is [collect |-> BOOLEAN, part |-> "lo"|"hi"|"whole",        *)
(*                 take |-> number of bytes returned, pend |-> flag after] *)
(***************************************************************************)
EXTENDS Integers, Sequences, SequencesExt, FiniteSets, FiniteSetsExt, TLC

(* The type annotations are for Apalache (apalache/APA_JitterApi.tla proves the C16 invariants  *)
(* inductive, i.e. for any number of collections); TLC ignores them.                          *)
(* @typeAlias: step = {collect: Bool, part: Str, take: Int, pend: Bool};                     *)
(* @typeAlias: acc = {tok: Int, pend: Bool, handed: Set(<<Int, Str>>), dup: Bool, ntok: Int}; *)
JitterApi_aliases == TRUE

\* @type: (Int) => $step;
U64Step(take) == [collect |-> TRUE, part |-> "whole", take |-> take, pend |-> FALSE]
\* @type: (Bool, Int) => $step;
U32Step(p, take) == IF p THEN [collect |-> FALSE, part |-> "hi", take |-> take, pend |-> FALSE]
                         ELSE [collect |-> TRUE,  part |-> "lo", take |-> take, pend |-> TRUE]

\* @type: Seq($step);
PlanU64 == <<U64Step(8)>>
\* @type: (Bool) => Seq($step);
PlanU32(p) == <<U32Step(p, 4)>>
(* fill_bytes(n) = fill_bytes_via_next: n \div 8 next_u64, then one next_u64 (tail 5..7) *)
(* or one next_u32 (tail 1..4) truncated to the tail                                      *)
\* @type: (Int, Int) => Seq($step);
PlanTail(p01, tail) ==
  IF tail > 4 THEN <<U64Step(tail)>> ELSE IF tail > 0 THEN <<U32Step(p01 = 1, tail)>> ELSE <<>>
\* @type: (Bool, Int) => Seq($step);
PlanFill(p, n) ==
  LET q == n \div 8  tail == n % 8
      \* @type: Seq($step);
      none == <<>>
      \* @type: Seq($step);
      whole == FoldSet(LAMBDA i, acc : Append(acc, U64Step(8)), none, 1..q)
      pAfter == IF q > 0 THEN FALSE ELSE p
  IN whole \o PlanTail(IF pAfter THEN 1 ELSE 0, tail)
(* the same plan for n < 48 without a variable-length constructor (for Apalache);              *)
(* MC_JitterApi checks PlanFillB = PlanFill on that range                                      *)
\* @type: Seq($step);
Whole5 == <<U64Step(8), U64Step(8), U64Step(8), U64Step(8), U64Step(8)>>
\* @type: (Bool, Int) => Seq($step);
PlanFillB(p, n) ==
  LET q == n \div 8  tail == n % 8
      pAfter == IF q > 0 THEN FALSE ELSE p
  IN SubSeq(Whole5, 1, q) \o PlanTail(IF pAfter THEN 1 ELSE 0, tail)
(* C05 describes fill_bytes(n) as above (so a tail of 1..4 bytes takes a pending half), C16 says *)
(* fill_bytes discards a pending half and collects afresh.  They differ only for n in 1..4 with *)
(* a half pending; that corner is left open: both plans are admitted.                           *)
(* fill_bytes(0) touches no word; whether a pending half survives it is left open as well (C05:     *)
(* "an immediately following next_u32"): DropStep hands out nothing and clears the flag.           *)
\* @type: $step;
DropStep == [collect |-> FALSE, part |-> "drop", take |-> 0, pend |-> FALSE]
\* @type: (Bool, Int, Seq($step)) => Set(Seq($step));
PlanAlternatives(p, n, main) ==
  LET \* @type: Seq($step);
      fresh == <<U32Step(FALSE, n)>>
      \* @type: Seq($step);
      drop == <<DropStep>>
  IN IF p /\ n \in 1..4 THEN {main, fresh}
     ELSE IF p /\ n = 0 THEN {main, drop}
     ELSE {main}
\* @type: (Bool, Int) => Set(Seq($step));
PlanFillSet(p, n) == PlanAlternatives(p, n, PlanFill(p, n))
\* @type: (Bool, Int) => Set(Seq($step));
PlanFillSetB(p, n) == PlanAlternatives(p, n, PlanFillB(p, n))
\* @type: (Bool, Seq($step)) => Bool;
PendAfter(p, plan) == IF plan = <<>> THEN p ELSE plan[Len(plan)].pend
ClonePend == FALSE        \* the pending half stays with the original

(***************************************************************************)
(* The abstract machine                                                    *)
(***************************************************************************)
CONSTANTS
  \* @type: Set(Int);
  Inst,        \* instance identifiers, e.g. {1,2,3}
  \* @type: Int;
  MaxTok,      \* bound on collections (state constraint)
  \* @type: Set(Int);
  FillLens,    \* fill_bytes lengths explored
  \* @type: Bool;
  CloneCopiesFlag   \* FALSE = the specification; TRUE = the mutation used as a negative test
VARIABLES
  \* @type: Set(Int);
  alive,       \* set of live instances
  \* @type: Int -> Int;
  tok,         \* tok[g]  = token of the value currently in g's data field (0 = none yet)
  \* @type: Int -> Bool;
  pend,        \* pend[g] = g's pending-half flag
  \* @type: Set(<<Int, Str>>);
  handed,      \* set of <<token, part>> handed out so far, by anybody
  \* @type: Bool;
  dup,         \* TRUE iff something was handed out twice
  \* @type: Int;
  ntok         \* number of collections performed so far
vars == <<alive, tok, pend, handed, dup, ntok>>

\* @type: (Int, Str, Set(<<Int, Str>>)) => Bool;
Conflicts(t, part, h) ==
  \/ <<t, part>> \in h
  \/ part = "whole" /\ (<<t, "lo">> \in h \/ <<t, "hi">> \in h)
  \/ part \in {"lo", "hi"} /\ <<t, "whole">> \in h

(* run a plan on instance g: acc = [tok, pend, handed, dup, ntok] *)
\* @type: ($acc, $step) => $acc;
RunStep(a, s) ==
  LET t  == IF s.collect THEN a.ntok + 1 ELSE a.tok
  IN [tok |-> t, pend |-> s.pend,
      handed |-> IF s.part = "drop" THEN a.handed ELSE a.handed \cup {<<t, s.part>>},
      dup |-> a.dup \/ (s.part # "drop" /\ (Conflicts(t, s.part, a.handed) \/ t = 0)),
      ntok |-> IF s.collect THEN a.ntok + 1 ELSE a.ntok]
\* @type: (Int, Seq($step)) => $acc;
Run(g, plan) ==
  FoldLeft(RunStep, [tok |-> tok[g], pend |-> pend[g], handed |-> handed, dup |-> dup, ntok |-> ntok], plan)

Do(g, plan) ==
  LET r == Run(g, plan) IN
  /\ tok' = [tok EXCEPT ![g] = r.tok] /\ pend' = [pend EXCEPT ![g] = r.pend]
  /\ handed' = r.handed /\ dup' = r.dup /\ ntok' = r.ntok
  /\ UNCHANGED alive

NextU32(g) == g \in alive /\ Do(g, PlanU32(pend[g]))
NextU64(g) == g \in alive /\ Do(g, PlanU64)
Fill(g, n) == g \in alive /\ \E plan \in PlanFillSet(pend[g], n) : Do(g, plan)
FillB(g, n) == g \in alive /\ \E plan \in PlanFillSetB(pend[g], n) : Do(g, plan)   \* n < 48, see PlanFillB
Clone(g, h) ==
  /\ g \in alive /\ h \notin alive
  /\ alive' = alive \cup {h}
  /\ tok' = [tok EXCEPT ![h] = tok[g]]                       \* the pool value is copied ...
  /\ pend' = [pend EXCEPT ![h] = IF CloneCopiesFlag THEN pend[g] ELSE ClonePend]   \* ... the claim on its high half is not
  /\ UNCHANGED <<handed, dup, ntok>>

(* Clone::clone_from(g, h): g is overwritten with a copy of h; whatever half g still owed is gone, *)
(* and - as for clone - the claim on h's pending half stays with h                                  *)
CloneFrom(g, h) ==
  /\ g \in alive /\ h \in alive /\ g # h
  /\ tok' = [tok EXCEPT ![g] = tok[h]]
  /\ pend' = [pend EXCEPT ![g] = IF CloneCopiesFlag THEN pend[h] ELSE ClonePend]
  /\ UNCHANGED <<alive, handed, dup, ntok>>

(* A call that is not an output call - set_rounds(r), timer_stats(..), test_timer() - hands out nothing   *)
(* and leaves every claim, in particular a pending half, exactly as it is: named stuttering steps, so    *)
(* that the transition cover executes each of them in every state of the hand-out machine.               *)
(* (timer_stats and test_timer do stir the pool; which bits the owed half then consists of is the        *)
(* business of the concrete model in Trace_Jitter, not of the token machine.)                            *)
NonOutput(g) == g \in alive /\ UNCHANGED vars
SetRounds(g) == NonOutput(g)
TimerStats(g) == NonOutput(g)
TestTimer(g) == NonOutput(g)

Init == /\ alive = {CHOOSE g \in Inst : \A h \in Inst : g <= h}
        /\ tok = [g \in Inst |-> 0] /\ pend = [g \in Inst |-> FALSE]
        /\ handed = {} /\ dup = FALSE /\ ntok = 0
Next == \E g \in Inst : \/ NextU32(g) \/ NextU64(g) \/ SetRounds(g) \/ TimerStats(g) \/ TestTimer(g)
                        \/ \E n \in FillLens : Fill(g, n)
                        \/ \E h \in Inst : Clone(g, h) \/ CloneFrom(g, h)
Spec == Init /\ [][Next]_vars
Bound == ntok <= MaxTok

(* ---- C16 ---- *)
AtMostOnce == ~dup
(* a pending flag always refers to a value whose low half, and nothing else, was handed out, *)
(* and no other live instance holds a claim on the same value                                *)
PendingIsHighHalfOfOwnValue ==
  \A g \in alive : pend[g] =>
      /\ tok[g] # 0 /\ <<tok[g], "lo">> \in handed
      /\ <<tok[g], "hi">> \notin handed /\ <<tok[g], "whole">> \notin handed
      /\ \A h \in alive : h # g /\ tok[h] = tok[g] => ~pend[h]
TypeOK == /\ alive \subseteq Inst /\ tok \in [Inst -> 0..(MaxTok + 4)] /\ pend \in [Inst -> BOOLEAN]
          /\ ntok \in Nat /\ dup \in BOOLEAN
(* every part handed out comes from a collection performed during that very call, or is the   *)
(* pending high half of the caller: "any other output call starts a fresh collection"          *)
FreshOrPendingHalf ==
  [][\A x \in handed' \ handed :
        x[1] > ntok \/ (\E g \in alive : pend[g] /\ ~pend'[g] /\ x = <<tok[g], "hi">>)]_vars
=============================================================================

------------------------------ MODULE Instances ------------------------------
(***************************************************************************)
(* C19: generators share no hidden state.                                  *)
(*                                                                         *)
(* N generator instances, each with its own abstract state [sid, pos]      *)
(* (which seed or timer it was built from, how many native words it has    *)
(* consumed), are constructed and operated by T threads in any order; an   *)
(* instance may be handled by a different thread at every step.  The ONLY  *)
(* state outside the instances is                                          *)
(*    jcache   the process-wide JITTER_ROUNDS of rand_jitter (std only),   *)
(* read and written by JitterRng::new() alone.                             *)
(* What an operation returns is abstracted to <<sid, pos>> (modules Stream *)
(* and Alg say which bytes that is).  Independence: every instance uses    *)
(* the seed it was given, and the k-th result it receives is the k-th      *)
(* result of its solo run, whatever the interleaving and whichever threads *)
(* execute it.                                                             *)
(*                                                                         *)
(* LeakMode is the negative control: "global" adds a process-wide cache of *)
(* the last seed expansion shared by all constructors, "threadlocal" one   *)
(* such cache per thread - the "optimisations" the property excludes.      *)
(***************************************************************************)
EXTENDS Integers, Sequences, SequencesExt, FiniteSets, TLC
CONSTANTS Inst, Threads, Seeds, OpsPer, LeakMode, WithStd
VARIABLES st,        \* st[g] = [alive, want, sid, pos, rounds, viaNew]
          res,       \* res[g] = results returned to g so far
          jcache,    \* JITTER_ROUNDS (0 = empty)
          gcache,    \* negative control: process-wide cache (0 = empty)
          tcache,    \* negative control: per-thread cache
          sched      \* the interleaving so far: <<instance, thread, op>>
vars == <<st, res, jcache, gcache, tcache, sched>>
Dead == [alive |-> FALSE, want |-> 0, sid |-> 0, pos |-> 0, rounds |-> 0, viaNew |-> FALSE]

Construct(g, t, s) ==
  /\ ~st[g].alive
  /\ LET eff == CASE LeakMode = "global" /\ gcache # 0 -> gcache
                  [] LeakMode = "threadlocal" /\ tcache[t] # 0 -> tcache[t]
                  [] OTHER -> s
     IN st' = [st EXCEPT ![g] = [alive |-> TRUE, want |-> s, sid |-> eff, pos |-> 0, rounds |-> 64, viaNew |-> FALSE]]
  /\ gcache' = (IF LeakMode = "global" /\ gcache = 0 THEN s ELSE gcache)
  /\ tcache' = (IF LeakMode = "threadlocal" /\ tcache[t] = 0 THEN [tcache EXCEPT ![t] = s] ELSE tcache)
  /\ sched' = Append(sched, <<g, t, "new">>) /\ UNCHANGED <<res, jcache>>
Output(g, t) ==
  /\ st[g].alive /\ Len(res[g]) < OpsPer
  /\ res' = [res EXCEPT ![g] = Append(@, <<st[g].sid, st[g].pos>>)]
  /\ st' = [st EXCEPT ![g].pos = @ + 1]
  /\ sched' = Append(sched, <<g, t, "out">>) /\ UNCHANGED <<jcache, gcache, tcache>>
(* JitterRng::new(): rounds from the process-wide cache if present, else from this timer's test *)
NewStd(g, t, tested) ==
  /\ ~st[g].alive
  /\ LET r == IF jcache # 0 THEN jcache ELSE tested IN
       /\ st' = [st EXCEPT ![g] = [alive |-> TRUE, want |-> 100 + g, sid |-> 100 + g, pos |-> 0, rounds |-> r, viaNew |-> TRUE]]
       /\ jcache' = (IF jcache # 0 THEN jcache ELSE tested)
  /\ sched' = Append(sched, <<g, t, "new_std">>) /\ UNCHANGED <<res, gcache, tcache>>

Init == /\ st = [g \in Inst |-> Dead] /\ res = [g \in Inst |-> <<>>] /\ jcache = 0 /\ gcache = 0
        /\ tcache = [t \in Threads |-> 0] /\ sched = <<>>
Next == \E g \in Inst, t \in Threads :
          \/ (\E s \in Seeds : Construct(g, t, s)) \/ Output(g, t) \/ (WithStd /\ \E r \in {1, 3} : NewStd(g, t, r))
Spec == Init /\ [][Next]_vars

(* ---- C19 ---- *)
UsesOwnSeed == \A g \in Inst : st[g].alive => st[g].sid = st[g].want
SoloResults == \A g \in Inst : \A k \in 1..Len(res[g]) : res[g][k] = <<st[g].want, k - 1>>
(* the process-wide cache influences only generators made by JitterRng::new() *)
CacheOnlyAffectsNewStd == \A g \in Inst : st[g].alive /\ ~st[g].viaNew => st[g].rounds = 64
(* frame: a step of one instance changes no other instance *)
Frame == [][\A g \in Inst : (\E h \in Inst : h # g /\ st'[h] # st[h]) => st'[g] = st[g] /\ res'[g] = res[g]]_vars
(* the interleaving is a history variable: it does not influence the future *)
View == <<st, res, jcache, gcache, tcache>>
Done == \A g \in Inst : st[g].alive /\ Len(res[g]) = OpsPer
=============================================================================

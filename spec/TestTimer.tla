------------------------------ MODULE TestTimer ------------------------------
(***************************************************************************)
(* C13: JitterRng::test_timer as a relation between what the timer showed  *)
(* during the probes and what may be returned.                             *)
(*                                                                         *)
(* A probe reads the timer four times: time, a (memory-walk loop count),   *)
(* b (LFSR loop count), time2.  rd[1] primes the collector; probe j is     *)
(* rd[4j-2 .. 4j+1].  The first Warm = 100 probes only warm the caches:    *)
(* zero readings and zero deltas are checked on every probe, the counts    *)
(* and the mean are taken over the Eval = 300 probes that follow.          *)
(*                                                                         *)
(* The relation is deliberately wider than today's code wherever the       *)
(* property does not pin the behaviour down (see "lenient" below), and     *)
(* exactly as strict as the property where it does:                        *)
(*   Ok(r)  only if no failure condition definitely holds, 1 <= r <= 128,  *)
(*          and r * bitlen(mean) >= 128 with mean >= 2;                    *)
(*   if a failure condition definitely holds, Err(e) with e naming a       *)
(*          condition that holds (possibly only leniently).                *)
(***************************************************************************)
EXTENDS Jitter
Warm == 100
Eval == 300
NProbes == Warm + Eval

(* ---- small-divisor arithmetic on limb words ---- *)
(* <<quotient word, remainder>> of a / k for 0 < k < 2^15 *)
DivSmall(a, k) ==
  LET n == Len(a)
      step(acc, i) == LET cur == acc[2] * B16 + a[n + 1 - i]
                      IN <<[acc[1] EXCEPT ![n + 1 - i] = cur \div k], cur % k>>
  IN FoldLeft(step, <<Zero(n), 0>>, Idx(n))
(* |x| of a 32-bit two's complement word, as a 32-bit unsigned word (|-2^31| = 2^31 fits) *)
Abs32(d) == IF IsNeg32(d) THEN NegW(d) ELSE d
(* |x - y| in Z for i32 x, y: a 64-bit word *)
AbsDiffZ(x, y) == LET d == SubW(SignExt64(x), SignExt64(y))
                  IN IF d[4] >= 32768 THEN NegW(d) ELSE d
(* |x - y| as the code computes it when the subtraction wraps: (x -w y).unsigned_abs() *)
AbsDiffW(x, y) == ZeroExt64(Abs32(SubW(x, y)))
LeW(a, b) == ~LtW(b, a)

(* ---- the summary of a (possibly incomplete) run of probes ---- *)
NP(rd) == IF Len(rd) >= 1 THEN (Len(rd) - 1) \div 4 ELSE 0
Partial(rd) == IF Len(rd) >= 1 THEN (Len(rd) - 1) % 4 ELSE 0
PTime(rd, j) == rd[4 * j - 2]
PTime2(rd, j) == rd[4 * j + 1]
PDelta(rd, j) == Delta32(PTime2(rd, j), PTime(rd, j))

Summary(rd) ==
  LET np == NP(rd)
      all == Idx(np)
      zeroReading == \/ \E j \in 1..np : IsZero(PTime(rd, j)) \/ IsZero(PTime2(rd, j))
                     \/ Partial(rd) >= 1 /\ IsZero(rd[4 * np + 2])
      zeroDelta == \E j \in 1..np : IsZero(PDelta(rd, j))
      isBack(j) == LeW(PTime2(rd, j), PTime(rd, j))
      isMod(j) == DivSmall(Abs32(PDelta(rd, j)), 100)[2] = 0
      cnt(P(_), lo) == FoldLeft(LAMBDA acc, j : IF j >= lo /\ P(j) THEN acc + 1 ELSE acc, 0, all)
      \* the stuck test and the variation sums run over the evaluated probes only
      ev == FoldLeft(LAMBDA acc, j :
                IF j <= Warm THEN acc
                ELSE LET d == PDelta(rd, j)
                         sk == StuckTest(acc.ec, d)
                     IN [ec |-> sk[1],
                         sw |-> acc.sw + (IF sk[2] THEN 1 ELSE 0),
                         sz |-> acc.sz + (IF sk[3] THEN 1 ELSE 0),
                         s1z |-> AddW(acc.s1z, AbsDiffZ(d, acc.old)),
                         s1w |-> AddW(acc.s1w, AbsDiffW(d, acc.old)),
                         s0z |-> IF j = Warm + 1 THEN acc.s0z ELSE AddW(acc.s0z, AbsDiffZ(d, acc.old)),
                         old |-> d],
              [ec |-> EcInit(Zero(4)), sw |-> 0, sz |-> 0, s1z |-> Zero(4), s1w |-> Zero(4), s0z |-> Zero(4), old |-> Zero(2)],
              all)
  IN [np |-> np, full |-> (np = NProbes /\ Partial(rd) = 0),
      zeroReading |-> zeroReading, zeroDelta |-> zeroDelta,
      backE |-> cnt(isBack, Warm + 1), backAll |-> cnt(isBack, 1),
      modE |-> cnt(isMod, Warm + 1), modAll |-> cnt(isMod, 1),
      stuckW |-> ev.sw, stuckZ |-> ev.sz,
      \* admissible readings of "the mean absolute change between successive probe deltas"
      means |-> { DivSmall(ev.s1z, Eval)[1], DivSmall(ev.s0z, Eval)[1], DivSmall(ev.s0z, Eval - 1)[1],
                  DivSmall(ev.s1w, Eval)[1] },
      mainMean |-> DivSmall(ev.s1z, Eval)[1]]

(* ---- the outcome relation on a summary ---- *)
Thr == (Eval * 9) \div 10                    \* "more than 90%"
Two == FromNat(2, 4)
TinyDef(s)  == \A m \in s.means : LtW(m, Two)       \* every reading of the mean is < 2
TinyLen(s)  == \E m \in s.means : LtW(m, Two)
(* definitely holds => an error is mandatory *)
Definite(s) == \/ s.zeroReading \/ s.zeroDelta \/ s.backE > 3 \/ s.modE > Thr
               \/ s.stuckW > Thr \/ (s.full /\ TinyDef(s))
(* leniently holds => the error may be reported *)
Holds(e, s) ==
  CASE e = "NoTimer"        -> s.zeroReading
    [] e = "CoarseTimer"    -> s.zeroDelta \/ s.modE > Thr \/ s.modAll > Thr
    [] e = "NotMonotonic"   -> s.backE > 3 \/ s.backAll > 3
    [] e = "TinyVariations" -> s.np > Warm /\ TinyLen(s)
    [] e = "TooManyStuck"   -> s.stuckW > Thr         \* the stuck test takes its differences mod 2^32 (see Jitter.tla)
    [] OTHER -> FALSE
Errors == {"NoTimer", "CoarseTimer", "NotMonotonic", "TinyVariations", "TooManyStuck"}

RoundsOk(r, s) == /\ r >= 1 /\ r <= 128
                  /\ \E m \in s.means : ~LtW(m, Two) /\ r * BitLenW(m) >= 128
OkAllowed(r, s) == s.full /\ ~Definite(s) /\ RoundsOk(r, s)
ErrAllowed(e, s) == e \in Errors /\ Holds(e, s)
(* The error is also a text (Display, Error::description).  rand_jitter/src/error.rs words the five    *)
(* conditions as below; a text that is one of these names that condition, which then has to hold like  *)
(* the one named by the variant.  Any other wording is not interpreted here.                           *)
TextNames == [t \in {"no timer available", "coarse timer", "timer not monotonic", "time delta variations too small",
                      "too many stuck results"} |->
                CASE t = "no timer available" -> "NoTimer" [] t = "coarse timer" -> "CoarseTimer"
                  [] t = "timer not monotonic" -> "NotMonotonic" [] t = "time delta variations too small" -> "TinyVariations"
                  [] OTHER -> "TooManyStuck"]
TextAllowed(t, s) == t \in DOMAIN TextNames => Holds(TextNames[t], s)

(* ---- the decision procedure of the code, on the same summary (code-shaped model) ---- *)
(* returns <<"ok", r>> or <<"err", e>>; valid for complete runs without early exit      *)
Log2Table == <<0, 0, 128, 81, 64, 56, 50, 46, 43, 41, 39, 38, 36, 35, 34, 33>>   \* index mean+1
ImplEstimate(mean) ==          \* mean: 64-bit word
  IF ~LtW(mean, FromNat(16, 4))
  THEN (128 + BitLenW(mean) - 1) \div BitLenW(mean)      \* roundup(64 / (log2/2)), log2 = bit length
  ELSE Log2Table[ToNat(<<mean[1], mean[2]>>) + 1]
ImplDecision(s, tinyLimit) ==      \* tinyLimit: TinyVariations iff delta_sum < tinyLimit * Eval, i.e. mean < tinyLimit
  IF s.zeroReading THEN <<"err", "NoTimer">>
  ELSE IF s.zeroDelta THEN <<"err", "CoarseTimer">>
  ELSE IF s.backE > 3 THEN <<"err", "NotMonotonic">>
  ELSE IF LtW(s.mainMean, FromNat(tinyLimit, 4)) THEN <<"err", "TinyVariations">>
  ELSE IF s.modE > Thr THEN <<"err", "CoarseTimer">>
  ELSE IF s.stuckW > Thr THEN <<"err", "TooManyStuck">>
  ELSE <<"ok", ImplEstimate(s.mainMean)>>
=============================================================================

-------------------------------- MODULE Hc128 --------------------------------
(***************************************************************************)
(* Layer 1 reference: the stream cipher HC-128 as specified by Hongjun Wu  *)
(* ("The Stream Cipher HC-128", eSTREAM final portfolio version), written  *)
(* in the form of the paper: two tables P, Q of 512 32-bit words, index    *)
(* arithmetic modulo 512 ("boxminus"), the functions f1 f2 g1 g2 h1 h2,    *)
(* the 1280-word expansion W, 1024 set-up steps, one keystream word per    *)
(* step.  Nothing is unrolled and nothing is buffered.                      *)
(* A table is a sequence of 512 words; P[j] of the paper is P[j+1] here.   *)
(***************************************************************************)
EXTENDS Words

Rr(x, k) == RotrW(x, k)
Rl(x, k) == RotlW(x, k)
F1(x) == XorW(XorW(Rr(x, 7), Rr(x, 18)), ShrW(x, 3))
F2(x) == XorW(XorW(Rr(x, 17), Rr(x, 19)), ShrW(x, 10))
G1(x, y, z) == AddW(XorW(Rr(x, 10), Rr(z, 23)), Rr(y, 8))
G2(x, y, z) == AddW(XorW(Rl(x, 10), Rl(z, 23)), Rl(y, 8))
Byte0(x) == x[1] % 256                  \* least significant byte
Byte2(x) == x[2] % 256                  \* third byte (bits 16..23)
H1(Q, x) == AddW(Q[Byte0(x) + 1], Q[256 + Byte2(x) + 1])
H2(P, x) == AddW(P[Byte0(x) + 1], P[256 + Byte2(x) + 1])
Bm(a, b) == (a - b + 512) % 512         \* a boxminus b

(* key and IV: four 32-bit words each *)
HcExpand(K, IV) ==
  LET w0 == K \o K \o IV \o IV          \* W[0..15]
      step(W, i) ==                      \* i = 16..1279, W has i elements
        Append(W, AddW(AddW(AddW(AddW(F2(W[i - 2 + 1]), W[i - 7 + 1]), F1(W[i - 15 + 1])), W[i - 16 + 1]), FromNat(i, 2)))
  IN FoldLeft(step, w0, TLCEval([k \in 1..1264 |-> k + 15]))

(* state [P, Q, i]: i = number of keystream steps taken so far (mod 1024) *)
HcSetupStepP(P, Q, j) == [P EXCEPT ![j + 1] =
   XorW(AddW(P[j + 1], G1(P[Bm(j, 3) + 1], P[Bm(j, 10) + 1], P[Bm(j, 511) + 1])), H1(Q, P[Bm(j, 12) + 1]))]
HcSetupStepQ(P, Q, j) == [Q EXCEPT ![j + 1] =
   XorW(AddW(Q[j + 1], G2(Q[Bm(j, 3) + 1], Q[Bm(j, 10) + 1], Q[Bm(j, 511) + 1])), H2(P, Q[Bm(j, 12) + 1]))]

HcInit(K, IV) ==
  LET W == HcExpand(K, IV)
      P0 == SubSeq(W, 257, 768)          \* P[i] = W[i+256]
      Q0 == SubSeq(W, 769, 1280)         \* Q[i] = W[i+768]
      P1 == FoldLeft(LAMBDA P, j : HcSetupStepP(P, Q0, j), P0, TLCEval([k \in 1..512 |-> k - 1]))
      Q1 == FoldLeft(LAMBDA Q, j : HcSetupStepQ(P1, Q, j), Q0, TLCEval([k \in 1..512 |-> k - 1]))
  IN [P |-> P1, Q |-> Q1, i |-> 0]

(* one keystream step: <<new state, s_i>> *)
HcStep(st) ==
  LET j == st.i % 512 IN
  IF st.i % 1024 < 512
  THEN LET pj == AddW(st.P[j + 1], G1(st.P[Bm(j, 3) + 1], st.P[Bm(j, 10) + 1], st.P[Bm(j, 511) + 1]))
           P2 == [st.P EXCEPT ![j + 1] = pj]
       IN << [P |-> P2, Q |-> st.Q, i |-> (st.i + 1) % 1024], XorW(H1(st.Q, P2[Bm(j, 12) + 1]), pj) >>
  ELSE LET qj == AddW(st.Q[j + 1], G2(st.Q[Bm(j, 3) + 1], st.Q[Bm(j, 10) + 1], st.Q[Bm(j, 511) + 1]))
           Q2 == [st.Q EXCEPT ![j + 1] = qj]
       IN << [P |-> st.P, Q |-> Q2, i |-> (st.i + 1) % 1024], XorW(H2(st.P, Q2[Bm(j, 12) + 1]), qj) >>

(* a 32-byte seed is the key followed by the IV, little-endian 32-bit words *)
HcFromSeed(seed) == LET w == WordsOfBytes(seed, 4) IN HcInit(SubSeq(w, 1, 4), SubSeq(w, 5, 8))
=============================================================================

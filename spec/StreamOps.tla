------------------------------ MODULE StreamOps ------------------------------
(* The call plans of module Stream (C05 as a specification) for a class given as a value: *)
(* SU32 / SU64 / SFill(c, pos, pend[, n]) return [o |-> byte-range descriptors, p |-> new  *)
(* pos, h |-> new pend].  Shared by Trace_Stream (twin words) and Rngs (reference words).  *)
EXTENDS Integers, Sequences, SequencesExt, TLC
Sw32  == INSTANCE Stream WITH Class <- "w32",  Fills <- {}, pos <- 0, pend <- 0, out <- <<>>
Shi   == INSTANCE Stream WITH Class <- "hi",   Fills <- {}, pos <- 0, pend <- 0, out <- <<>>
Slo   == INSTANCE Stream WITH Class <- "lo",   Fills <- {}, pos <- 0, pend <- 0, out <- <<>>
Ssm   == INSTANCE Stream WITH Class <- "sm",   Fills <- {}, pos <- 0, pend <- 0, out <- <<>>
Shalf == INSTANCE Stream WITH Class <- "half", Fills <- {}, pos <- 0, pend <- 0, out <- <<>>
Sb32  == INSTANCE Stream WITH Class <- "b32",  Fills <- {}, pos <- 0, pend <- 0, out <- <<>>
Sb64  == INSTANCE Stream WITH Class <- "b64",  Fills <- {}, pos <- 0, pend <- 0, out <- <<>>

SU32(c, p, h) == CASE c = "w32" -> Sw32!U32(p, h) [] c = "hi" -> Shi!U32(p, h) [] c = "lo" -> Slo!U32(p, h)
                   [] c = "sm" -> Ssm!U32(p, h) [] c = "half" -> Shalf!U32(p, h)
                   [] c = "b32" -> Sb32!U32(p, h) [] c = "b64" -> Sb64!U32(p, h)
SU64(c, p, h) == CASE c = "w32" -> Sw32!U64(p, h) [] c = "hi" -> Shi!U64(p, h) [] c = "lo" -> Slo!U64(p, h)
                   [] c = "sm" -> Ssm!U64(p, h) [] c = "half" -> Shalf!U64(p, h)
                   [] c = "b32" -> Sb32!U64(p, h) [] c = "b64" -> Sb64!U64(p, h)
SFill(c, p, h, n) == CASE c = "w32" -> Sw32!Fill(p, h, n) [] c = "hi" -> Shi!Fill(p, h, n) [] c = "lo" -> Slo!Fill(p, h, n)
                   [] c = "sm" -> Ssm!Fill(p, h, n) [] c = "half" -> Shalf!Fill(p, h, n)
                   [] c = "b32" -> Sb32!Fill(p, h, n) [] c = "b64" -> Sb64!Fill(p, h, n)

(* the open corner of the "half" class (JitterRng, fill_bytes(1..4) with a half pending): the other admitted plan *)
SFillFresh(p, n) == Shalf!FillFresh(p, n)
=============================================================================

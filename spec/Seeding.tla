------------------------------- MODULE Seeding -------------------------------
(***************************************************************************)
(* C08 / C09: the seeding protocol of every SeedableRng in the five crates *)
(* as pure operators over byte sources and abstract generator descriptors. *)
(*                                                                         *)
(* A constructor returns a DESCRIPTOR of the generator it builds:          *)
(*    <<"verbatim", seed>>   the state whose words are the seed's words    *)
(*    <<"u64", x>>           the generator seed_from_u64(x)                *)
(*    <<"const">>            XorShiftRng's four words 0x0BAD5EED           *)
(*    <<"full", bytes>>      ISAAC initialised (two passes) from a full    *)
(*                           256-word state's worth of source bytes        *)
(* Module MC_Seeding explores the protocol exhaustively over small byte    *)
(* alphabets; the trace specification resolves descriptors to concrete     *)
(* algorithm states (module Alg) and validates the real constructors with  *)
(* these very operators.                                                   *)
(*                                                                         *)
(* Protocol classes:  "remap"  xoshiro/xoroshiro: the all-zero seed is     *)
(*                             replaced by seed_from_u64(0)                *)
(*                    "redraw" XorShiftRng: zero seed -> constant; from_rng *)
(*                             redraws while the block is all zero         *)
(*                    "plain"  SplitMix64, Hc128Rng: the seed is used as is *)
(*                    "full"   IsaacRng / Isaac64Rng: from_seed as is, but  *)
(*                             from_rng draws the whole state              *)
(***************************************************************************)
EXTENDS Integers, Sequences, SequencesExt, TLC

AllZero(bs) == \A i \in 1..Len(bs) : bs[i] = 0
MinI(a, b) == IF a < b THEN a ELSE b

(* ---- byte sources: [bytes, lead, pos, calls, fallible, failAt, partial, sticky] ---- *)
(* byte number p (0-based, absolute) of the source is 0 for p < lead and bytes[(p - lead) mod Len] afterwards; *)
(* failAt = 0: never fails                                                                                   *)
SrcByte(src, p) == IF p < src.lead THEN 0 ELSE src.bytes[((p - src.lead) % Len(src.bytes)) + 1]
SrcTake(src, n) == TLCEval([i \in 1..n |-> SrcByte(src, src.pos + i - 1)])
SrcFails(src) == LET c == src.calls + 1 IN
                 src.fallible /\ src.failAt # 0 /\ (IF src.sticky THEN c >= src.failAt ELSE c = src.failAt)
(* one fill_bytes / try_fill_bytes call of n bytes *)
SrcFill(src, n) ==
  IF SrcFails(src)
  THEN LET p == MinI(src.partial, n) IN
       [ok |-> FALSE, bytes |-> SrcTake(src, p), n |-> p, src |-> [src EXCEPT !.calls = @ + 1, !.pos = @ + p]]
  ELSE [ok |-> TRUE, bytes |-> SrcTake(src, n), n |-> n, src |-> [src EXCEPT !.calls = @ + 1, !.pos = @ + n]]

(* ---- from_seed ---- *)
FromSeedD(cls, seed) ==
  IF AllZero(seed) /\ cls = "remap" THEN <<"u64", 0>>
  ELSE IF AllZero(seed) /\ cls = "redraw" THEN <<"const">>
  ELSE <<"verbatim", seed>>

(* ---- from_rng / try_from_rng: [ok, gen, src, log] ; log = the calls made: <<ok?, bytes delivered>> ---- *)
(* slen = seed length; flen = number of bytes from_rng draws (= slen except for class "full")           *)
MaxDraws == 4096    \* bound on the redraw loop accepted (an all-zero source never returns)
RECURSIVE Redraw(_, _, _, _)
Redraw(src, slen, log, k) ==
  LET r == SrcFill(src, slen) IN
  IF ~r.ok THEN [ok |-> FALSE, gen |-> <<"none">>, src |-> r.src, log |-> Append(log, <<FALSE, r.n>>)]
  ELSE IF AllZero(r.bytes) /\ k < MaxDraws THEN Redraw(r.src, slen, Append(log, <<TRUE, r.n>>), k + 1)
  ELSE IF AllZero(r.bytes) THEN [ok |-> FALSE, gen |-> <<"loops">>, src |-> r.src, log |-> Append(log, <<TRUE, r.n>>)]
  ELSE [ok |-> TRUE, gen |-> <<"verbatim", r.bytes>>, src |-> r.src, log |-> Append(log, <<TRUE, r.n>>)]

(* a source that never fails and starts with a long run of zero bytes: the whole all-zero blocks of that *)
(* run are redrawn one after the other, however many they are; beyond MaxDraws \div 2 of them they are  *)
(* taken in one step here (one aggregated log entry), so that the bound above is about the rest          *)
LeadBlocks(src, slen) ==
  IF (~src.fallible \/ src.failAt = 0) /\ src.pos < src.lead THEN (src.lead - src.pos) \div slen ELSE 0
FromRngD(cls, slen, flen, src) ==
  IF cls = "redraw"
  THEN LET z == LeadBlocks(src, slen) IN
       IF z > MaxDraws \div 2
       THEN Redraw([src EXCEPT !.pos = @ + z * slen, !.calls = @ + z], slen, <<<<TRUE, z * slen>>>>, 1)
       ELSE Redraw(src, slen, <<>>, 1)
  ELSE LET r == SrcFill(src, flen) IN
       IF ~r.ok THEN [ok |-> FALSE, gen |-> <<"none">>, src |-> r.src, log |-> <<<<FALSE, r.n>>>>]
       ELSE [ok |-> TRUE, gen |-> IF cls = "full" THEN <<"full", r.bytes>> ELSE FromSeedD(cls, r.bytes),
             src |-> r.src, log |-> <<<<TRUE, r.n>>>>]

(* ---- what C08 demands of a descriptor ---- *)
(* the only descriptors that denote the all-zero state of a linear engine *)
IsZeroStateD(cls, d) == cls \in {"remap", "redraw"} /\ d[1] = "verbatim" /\ AllZero(d[2])
=============================================================================

--------------------------------- MODULE Alg ---------------------------------
(***************************************************************************)
(* Layer 1 dispatch: "the published algorithm of generator kind k".        *)
(* An algorithm state is a record [k |-> kind, s |-> reference state]; the  *)
(* operators below give, for every kind, the state denoted by a seed, one   *)
(* native-width step, and the jump functions.  Zero-seed handling is NOT    *)
(* here (it is API behaviour, module Seeding); AlgOfSeed is the raw         *)
(* "state whose words are the little-endian words of the seed".            *)
(***************************************************************************)
EXTENDS Xoshiro, XorShift, Hc128, Isaac, Pcg32, Seeding

XoKinds == Kinds
LinearKinds == XoKinds \cup {"XorShiftRng"}
BlockKinds == {"Hc128Rng", "IsaacRng", "Isaac64Rng"}
AlgKinds == LinearKinds \cup {"SplitMix64"} \cup BlockKinds

(* native output width in limbs *)
OutLimbs(k) == IF k \in XoKinds THEN WLimbs(k) ELSE IF k \in {"XorShiftRng", "Hc128Rng", "IsaacRng"} THEN 2 ELSE 4
AlgSeedLen(k) == IF k \in XoKinds THEN SeedBytes(k) ELSE IF k = "XorShiftRng" THEN 16
                 ELSE IF k = "SplitMix64" THEN 8 ELSE 32

AlgOfSeed(k, seed) ==
  CASE k \in XoKinds     -> XoFromSeed(k, seed)
    [] k = "XorShiftRng" -> XsFromSeed(seed)
    [] k = "SplitMix64"  -> FromBytesLE(seed)
    [] k = "Hc128Rng"    -> HcFromSeed(seed)
    [] k = "IsaacRng"    -> IsaacStart(32, SeedWords(32, seed), 2)
    [] k = "Isaac64Rng"  -> IsaacStart(64, SeedWords(64, seed), 2)

(* one native step: <<new state, output word>> *)
AlgNext(k, s) ==
  CASE k \in XoKinds     -> XoNext(k, s)
    [] k = "XorShiftRng" -> XsNext(s)
    [] k = "SplitMix64"  -> SmNext64(s)
    [] k = "Hc128Rng"    -> HcStep(s)
    [] k = "IsaacRng"    -> IsaacNext(32, s)
    [] k = "Isaac64Rng"  -> IsaacNext(64, s)

(* n native steps: <<final state, <<outputs>> >> *)
AlgTake(k, s, n) ==
  FoldLeft(LAMBDA acc, i : LET r == AlgNext(k, acc[1]) IN <<r[1], Append(acc[2], r[2])>>,
           <<s, <<>>>>, Idx(n))

(* the observable state image: the sequence of state words *)
AlgImage(k, s) == IF k = "SplitMix64" THEN <<s>> ELSE IF k \in BlockKinds THEN <<>> ELSE s
AlgIsZero(k, s) == \A i \in 1..Len(AlgImage(k, s)) : IsZero(AlgImage(k, s)[i])

(* ---- seeding (C08, C09): protocol class, draw length, documented u64 expansion ---- *)
SeedClass(k) == IF k \in XoKinds THEN "remap" ELSE IF k = "XorShiftRng" THEN "redraw"
                ELSE IF k \in {"IsaacRng", "Isaac64Rng"} THEN "full" ELSE "plain"
FromRngLen(k) == IF k = "IsaacRng" THEN 1024 ELSE IF k = "Isaac64Rng" THEN 2048 ELSE AlgSeedLen(k)
(* the first n bytes of the SplitMix64 stream started at x: little-endian next_u64 results *)
SmBytes(x, n) == SubSeq(BytesOfWords(SmStream(x, (n + 7) \div 8)), 1, n)

(* the state denoted by a descriptor of module Seeding *)
SeedFromU64State(k, x) ==
  CASE k \in XoKinds ->
         LET b == SmBytes(x, AlgSeedLen(k))
         IN IF AllZero(b) THEN AlgOfSeed(k, SmBytes(Zero(4), AlgSeedLen(k))) ELSE AlgOfSeed(k, b)   \* zero remap = seed_from_u64(0)
    [] k = "XorShiftRng" -> LET b == PcgBytes(x, 16) IN IF AllZero(b) THEN XsBadSeed ELSE AlgOfSeed(k, b)
    [] k = "Hc128Rng"    -> AlgOfSeed(k, PcgBytes(x, 32))
    [] k = "SplitMix64"  -> x
    [] k = "IsaacRng"    -> IsaacStart(32, KeyWords(32, x), 1)
    [] k = "Isaac64Rng"  -> IsaacStart(64, KeyWords(64, x), 1)
ResolveD(k, d) ==
  CASE d[1] = "verbatim" -> AlgOfSeed(k, d[2])
    [] d[1] = "const"    -> XsBadSeed
    [] d[1] = "u64"      -> SeedFromU64State(k, FromNat(d[2], 4))
    [] d[1] = "full"     -> IF k = "IsaacRng" THEN IsaacStart(32, WordsOfBytes(d[2], 4), 2)
                            ELSE IsaacStart(64, WordsOfBytes(d[2], 8), 2)
=============================================================================

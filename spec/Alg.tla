--------------------------------- MODULE Alg ---------------------------------
(***************************************************************************)
(* Layer 1 dispatch: "the published algorithm of generator kind k".        *)
(* An algorithm state is a record [k |-> kind, s |-> reference state]; the  *)
(* operators below give, for every kind, the state denoted by a seed, one   *)
(* native-width step, and the jump functions.  Zero-seed handling is NOT    *)
(* here (it is API behaviour, module Seeding); AlgOfSeed is the raw         *)
(* "state whose words are the little-endian words of the seed".            *)
(***************************************************************************)
EXTENDS Xoshiro, XorShift, Hc128, Isaac, Pcg32

XoKinds == Kinds
LinearKinds == XoKinds \cup {"XorShiftRng"}
BlockKinds == {"Hc128Rng", "IsaacRng", "Isaac64Rng"}
AlgKinds == LinearKinds \cup {"SplitMix64"} \cup BlockKinds

(* native output width in limbs *)
OutLimbs(k) == IF k \in XoKinds THEN WLimbs(k) ELSE IF k \in {"XorShiftRng", "Hc128Rng", "IsaacRng"} THEN 2 ELSE 4
AlgSeedLen(k) == IF k \in XoKinds THEN SeedBytes(k) ELSE IF k = "XorShiftRng" THEN 16
                 ELSE IF k = "SplitMix64" THEN 8 ELSE 32

AlgOfSeed(k, seed) ==
  CASE k \in XoKinds     -> XoFromSeed(k, seed)
    [] k = "XorShiftRng" -> XsFromSeed(seed)
    [] k = "SplitMix64"  -> FromBytesLE(seed)
    [] k = "Hc128Rng"    -> HcFromSeed(seed)
    [] k = "IsaacRng"    -> IsaacStart(32, SeedWords(32, seed), 2)
    [] k = "Isaac64Rng"  -> IsaacStart(64, SeedWords(64, seed), 2)

(* one native step: <<new state, output word>> *)
AlgNext(k, s) ==
  CASE k \in XoKinds     -> XoNext(k, s)
    [] k = "XorShiftRng" -> XsNext(s)
    [] k = "SplitMix64"  -> SmNext64(s)
    [] k = "Hc128Rng"    -> HcStep(s)
    [] k = "IsaacRng"    -> IsaacNext(32, s)
    [] k = "Isaac64Rng"  -> IsaacNext(64, s)

(* n native steps: <<final state, <<outputs>> >> *)
AlgTake(k, s, n) ==
  FoldLeft(LAMBDA acc, i : LET r == AlgNext(k, acc[1]) IN <<r[1], Append(acc[2], r[2])>>,
           <<s, <<>>>>, Idx(n))

(* the observable state image: the sequence of state words *)
AlgImage(k, s) == IF k = "SplitMix64" THEN <<s>> ELSE IF k \in BlockKinds THEN <<>> ELSE s
AlgIsZero(k, s) == \A i \in 1..Len(AlgImage(k, s)) : IsZero(AlgImage(k, s)[i])
=============================================================================

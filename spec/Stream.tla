------------------------------- MODULE Stream -------------------------------
(***************************************************************************)
(* C05 written as a specification: the API of ONE generator instance is a  *)
(* projection of one forward-only native word stream.                      *)
(*                                                                         *)
(* State: pos  = number of native words consumed so far (the next word is  *)
(*               word number pos, 0-based);                                *)
(*        pend = 1 iff the high half of word pos-1 is still to be handed   *)
(*               out (Isaac64Rng and JitterRng only);                      *)
(*        out  = what the last call returned, as a sequence of byte-range  *)
(*               descriptors <<src, word, lo, hi>>: bytes lo..hi (0-based) *)
(*               of the little-endian encoding of word number `word` of    *)
(*               stream `src` (0 = the native stream, 1 = SplitMix64's     *)
(*               32-bit stream, i.e. its own finalizer of the same counter *)
(*               steps); the returned bytes are their concatenation.       *)
(*               Concrete words are plugged in by the trace spec; here     *)
(*               they are uninterpreted, so the model checker proves the   *)
(*               projection for all word values at once.                   *)
(*                                                                         *)
(* Class (constant) selects the clause of the property:                    *)
(*   "w32"   32-bit native word, via-next composition                      *)
(*           (Xoroshiro64*, Xoshiro128*, XorShiftRng)                      *)
(*   "hi"    64-bit native, next_u32 = upper half (xoshiro256/512,         *)
(*           Xoroshiro128Plus)                                             *)
(*   "lo"    64-bit native, next_u32 = lower half (Xoroshiro128PlusPlus,   *)
(*           Xoroshiro128StarStar)                                         *)
(*   "sm"    SplitMix64: next_u32 = word of stream 1 at the same position  *)
(*   "half"  JitterRng: 64-bit native, next_u32 = low half then, on an     *)
(*           immediately following next_u32, the high half; via-next fill  *)
(*   "b32"   buffered 32-bit words (Hc128Rng, IsaacRng): fill_bytes is the *)
(*           first n bytes of the next ceil(n/4) words                     *)
(*   "b64"   Isaac64Rng: buffered 64-bit words with the low/high rule;     *)
(*           fill_bytes = first n bytes of the next ceil(n/8) words        *)
(***************************************************************************)
EXTENDS Integers, Sequences, SequencesExt, TLC
CONSTANTS Class, Fills
VARIABLES pos, pend, out
svars == <<pos, pend, out>>

WB == IF Class \in {"w32", "b32"} THEN 4 ELSE 8          \* native word bytes
Classes == {"w32", "hi", "lo", "sm", "half", "b32", "b64"}

(* bytes lo..hi (0-based, inclusive) of word w of stream src *)
Bytes(src, w, lo, hi) == << <<src, w, lo, hi>> >>
DLen(d) == d[4] - d[3] + 1
NBytes(o) == FoldLeft(LAMBDA acc, d : acc + DLen(d), 0, o)
(* the first n bytes of a descriptor sequence *)
Take(o, n) ==
  FoldLeft(LAMBDA acc, d :
             LET have == NBytes(acc) IN
             IF have >= n THEN acc
             ELSE IF have + DLen(d) <= n THEN Append(acc, d)
             ELSE Append(acc, <<d[1], d[2], d[3], d[3] + (n - have) - 1>>),
           <<>>, o)

(* ---- results and effects of the three calls, as functions of (pos,pend) ---- *)
(* each returns [o |-> descriptors, p |-> new pos, h |-> new pend]               *)
U32(p, h) ==
  CASE Class \in {"w32", "b32"} -> [o |-> Bytes(0, p, 0, 3), p |-> p + 1, h |-> 0]
    [] Class = "hi"             -> [o |-> Bytes(0, p, 4, 7), p |-> p + 1, h |-> 0]
    [] Class = "lo"             -> [o |-> Bytes(0, p, 0, 3), p |-> p + 1, h |-> 0]
    [] Class = "sm"             -> [o |-> Bytes(1, p, 0, 3), p |-> p + 1, h |-> 0]
    [] Class \in {"half", "b64"} ->
         IF h = 1 THEN [o |-> Bytes(0, p - 1, 4, 7), p |-> p, h |-> 0]
                  ELSE [o |-> Bytes(0, p, 0, 3), p |-> p + 1, h |-> 1]

U64(p, h) ==
  IF WB = 4 THEN [o |-> Bytes(0, p, 0, 3) \o Bytes(0, p + 1, 0, 3), p |-> p + 2, h |-> 0]
            ELSE [o |-> Bytes(0, p, 0, 7), p |-> p + 1, h |-> 0]

(* fill_bytes(n) of the via-next classes: n \div 8 next_u64 results, then one  *)
(* next_u64 (tail 5..7) or one next_u32 (tail 1..4) truncated to the tail     *)
RECURSIVE ViaFill(_, _, _)
ViaFill(p, h, n) ==
  IF n >= 8 THEN LET r == U64(p, h)  rest == ViaFill(r.p, r.h, n - 8)
                 IN [o |-> r.o \o rest.o, p |-> rest.p, h |-> rest.h]
  ELSE IF n > 4 THEN LET r == U64(p, h) IN [o |-> Take(r.o, n), p |-> r.p, h |-> r.h]
  ELSE IF n > 0 THEN LET r == U32(p, h) IN [o |-> Take(r.o, n), p |-> r.p, h |-> r.h]
  ELSE [o |-> <<>>, p |-> p, h |-> h]

(* fill_bytes(n) of the buffered classes: the first n little-endian bytes of  *)
(* the next ceil(n/WB) words; a pending half is dropped                        *)
BlockFill(p, h, n) ==
  [o |-> TLCEval([j \in 1..((n + WB - 1) \div WB) |->
                    <<0, p + j - 1, 0, IF j * WB <= n THEN WB - 1 ELSE (n - (j - 1) * WB) - 1>>]),
   p |-> p + ((n + WB - 1) \div WB),
   h |-> 0]

(* the alternative for the open corner: discard the pending half, take the tail from the low half of a fresh word *)
FillFresh(p, n) == LET r == U32(p, 0) IN [o |-> Take(r.o, n), p |-> r.p, h |-> r.h]
Fill(p, h, n) == IF Class \in {"b32", "b64"} THEN BlockFill(p, h, n) ELSE ViaFill(p, h, n)

(* ---- the specification ---- *)
Apply(r) == /\ pos' = r.p /\ pend' = r.h /\ out' = r.o
SNextU32 == Apply(U32(pos, pend))
SNextU64 == Apply(U64(pos, pend))
SFill(n) == \/ Apply(Fill(pos, pend, n))
            \* fill_bytes(0) touches no word: whether a pending half survives it is
            \* left open by the property ("an immediately following next_u32")
            \/ n = 0 /\ pend = 1 /\ pos' = pos /\ out' = <<>> /\ pend' \in {0, 1}
            \* JitterRng, 1..4 bytes with a half pending: this property words fill_bytes as "one next_u32
            \* truncated to the tail" (which hands out the pending half), C16 says fill_bytes discards a
            \* pending half and collects afresh; the corner is left open - both are projections of the
            \* one forward stream
            \/ Class = "half" /\ pend = 1 /\ n \in 1..4 /\ Apply(FillFresh(pos, n))

SInit == pos = 0 /\ pend = 0 /\ out = <<>>
SNext == SNextU32 \/ SNextU64 \/ \E n \in Fills : SFill(n)
SSpec == SInit /\ [][SNext]_svars
(* the same next-state relation in a form TLC can check a refinement against  *)
(* without trying every n: SFill(n) implies NBytes(out') = n                      *)
SNextChk == SNextU32 \/ SNextU64 \/ (NBytes(out') \in Fills /\ SFill(NBytes(out')))
SSpecChk == SInit /\ [][SNextChk]_svars

(* ---- what the property says, as checkable theorems of SSpec ---- *)
(* forward only; every call consumes whole words; no word skipped or repeated: *)
(* the words named by `out` are exactly the words between the old and the new   *)
(* position (plus the pending word for a high half), in increasing order        *)
NoSkipNoRepeat ==
  [][ LET o == out'  n == Len(o) IN
      /\ pos' >= pos
      /\ pos' > pos => n > 0
      \* the words touched are consecutive, each named once, in increasing order,
      \* start at the old position (or at the pending word) and end just below the new one
      /\ n > 0 => /\ o[1][2] = (IF o[1][3] = 4 /\ pend = 1 THEN pos - 1 ELSE pos)
                  /\ o[n][2] = pos' - 1
                  /\ \A i \in 1..(n - 1) : o[i + 1][2] = o[i][2] + 1
      \* only the unused remainder of the LAST word touched may be dropped: every
      \* earlier word contributes a whole native word or a whole 32-bit half
      /\ \A i \in 1..(n - 1) : DLen(o[i]) \in {4, 8} ]_svars
TypeOK == pos \in Nat /\ pend \in {0, 1} /\ (pend = 1 => Class \in {"half", "b64"} /\ pos > 0)
=============================================================================

---------------------------- MODULE APA_JitterApi ----------------------------
(***************************************************************************)
(* C16 for an UNBOUNDED number of collections: IndInv is an inductive       *)
(* invariant of the hand-out machine of JitterApi.tla (3 instances, every  *)
(* fill length below 48, no bound on the number of collected values), and  *)
(* it implies AtMostOnce and PendingIsHighHalfOfOwnValue.  Checked with    *)
(* Apalache:                                                               *)
(*   apalache-mc check --cinit=CInit --init=Init    --inv=IndInv --length=0 *)
(*   apalache-mc check --cinit=CInit --init=IndInit --inv=IndInv --length=1 *)
(*   apalache-mc check --cinit=CInit --init=IndInit --inv=Goal   --length=0 *)
(* TLC (mc/MC_JitterApi) explores the same machine exhaustively up to      *)
(* MaxTok collections and checks that PlanFillB = PlanFill on 0..47.       *)
(***************************************************************************)
EXTENDS JitterApi, Apalache

CInit == /\ Inst = {1, 2, 3} /\ MaxTok = 0 /\ FillLens = 0..47 /\ CloneCopiesFlag = FALSE
CInitNeg == /\ Inst = {1, 2, 3} /\ MaxTok = 0 /\ FillLens = 0..47 /\ CloneCopiesFlag = TRUE

Parts == {"lo", "hi", "whole"}
IndInv ==
  /\ alive \subseteq Inst /\ alive # {}
  /\ DOMAIN tok = Inst /\ DOMAIN pend = Inst
  /\ ntok >= 0 /\ ~dup
  /\ \A g \in Inst : tok[g] >= 0 /\ tok[g] <= ntok
  /\ \A g \in Inst : g \notin alive => ~pend[g] /\ tok[g] = 0
  /\ \A x \in handed : x[1] >= 1 /\ x[1] <= ntok /\ x[2] \in Parts
  \* a value handed out whole was never handed out in halves
  /\ \A x \in handed : x[2] = "whole" => <<x[1], "lo">> \notin handed /\ <<x[1], "hi">> \notin handed
  \* a pending flag is the exclusive claim on the untouched high half of the instance's own value
  /\ \A g \in Inst : pend[g] =>
        /\ tok[g] >= 1 /\ <<tok[g], "lo">> \in handed
        /\ <<tok[g], "hi">> \notin handed /\ <<tok[g], "whole">> \notin handed
        /\ \A h \in Inst : h # g /\ tok[h] = tok[g] => ~pend[h]

\* an ARBITRARY state satisfying IndInv: token numbers and the collection counter are unconstrained
\* integers; the only bound is on the size of the set `handed` (at most 10 elements) - a step looks
\* at `handed` only through membership tests for the (at most two) values it touches
IndInit ==
  /\ alive \in SUBSET Inst
  /\ ntok \in Int
  /\ tok = Gen(3)
  /\ pend \in [Inst -> BOOLEAN]
  /\ handed = Gen(10)
  /\ dup \in BOOLEAN
  /\ IndInv

NextB == \E g \in Inst : \/ NextU32(g) \/ NextU64(g) \/ SetRounds(g)
                         \/ \E n \in FillLens : FillB(g, n)
                         \/ \E h \in Inst : Clone(g, h) \/ CloneFrom(g, h)

Goal == AtMostOnce /\ PendingIsHighHalfOfOwnValue
=============================================================================

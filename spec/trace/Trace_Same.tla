----------------------------- MODULE Trace_Same -----------------------------
(***************************************************************************)
(* C18: the trace recorded by the harness built in another configuration   *)
(* (IOEnv.TRACE2) must be the same behaviour as the trace of the reference *)
(* configuration (IOEnv.TRACE), which the trace specifications validate:   *)
(* event by event the same operation with the same results - values,       *)
(* Ok/Err, readings consumed, Debug text, source cursor - and a panic in   *)
(* one is a panic in the other.  Fields that only exist with the serde     *)
(* feature (state images) are compared when both traces have them.         *)
(***************************************************************************)
EXTENDS Integers, Sequences, Json, IOUtils, TLC
A == ndJsonDeserialize(IOEnv.TRACE)
B == ndJsonDeserialize(IOEnv.TRACE2)
VARIABLE l
Fields == {"e", "g", "to", "ret", "ok", "n", "reads", "ok_rounds", "err", "text", "alt", "src_pos", "src_calls",
           "set_panic", "err_call", "panic", "no_ret", "obs", "digest", "bytes", "via", "kib", "off", "aborted", "reads_n", "reads_digest", "ok_count", "seeds",
           "err_text", "src_log", "src_log_n", "src_delivered", "src_failed", "src_fill_only", "src_failures"}
SerdeOnly == {"obs"}       \* absent without the serde feature for the plain types
Same(a, b) ==
  /\ \A f \in Fields \ SerdeOnly : (f \in DOMAIN a) = (f \in DOMAIN b)
  /\ \A f \in Fields : f \in DOMAIN a /\ f \in DOMAIN b => a[f] = b[f]
Init == l = 1
Next == /\ l <= Len(A) /\ l <= Len(B)
        /\ IF Same(A[l], B[l]) THEN TRUE
           ELSE PrintT(<<"MISMATCH", l, "the two runs differ in the fields",
                         {f \in Fields : ((f \in DOMAIN A[l]) # (f \in DOMAIN B[l]) /\ f \notin SerdeOnly)
                                         \/ (f \in DOMAIN A[l] /\ f \in DOMAIN B[l] /\ A[l][f] # B[l][f])},
                         "of event", A[l].e>>) /\ FALSE
        /\ l' = l + 1
Spec == Init /\ [][Next]_l
Accepted ==
  IF Len(A) = Len(B) /\ TLCGet("stats").diameter - 1 = Len(A) THEN TRUE
  ELSE PrintT(<<"UNMATCHED", TLCGet("stats").diameter, Len(A), Len(B)>>) /\ FALSE
=============================================================================

---------------------------- MODULE Trace_Jitter ----------------------------
(***************************************************************************)
(* Trace validation of JitterRng (C12, C13, C14, C15, C16): every recorded  *)
(* call carries the timer readings it consumed; the specification (modules  *)
(* Jitter, TestTimer) recomputes the pool, the memory-walk position, the    *)
(* pending-half flag, the returned value and the exact number of readings.  *)
(*                                                                         *)
(* Instance state: [pool, mpi, rounds, half].  The abstract "which value    *)
(* was handed out" bookkeeping of C16 is the ghost variable `given`: the    *)
(* set of <<collection id, part>> already returned, per collection id =     *)
(* <<instance, serial number of the collection>>.                           *)
(***************************************************************************)
EXTENDS TestTimer, Json, IOUtils, TLC
Rec == ndJsonDeserialize(IOEnv.TRACE)
VARIABLES l, jit
vars == <<l, jit>>
Ev == Rec[l]
Has(r, f) == f \in DOMAIN r

Expect(what, spec, impl) ==
  IF spec = impl THEN TRUE
  ELSE PrintT(<<"MISMATCH", l, what, "spec", spec, "impl", impl>>) /\ FALSE
IsEvent(e) == l <= Len(Rec) /\ Ev.e = e /\ l' = l + 1
NoPanic == IF ~Has(Ev, "panic") THEN TRUE ELSE PrintT(<<"MISMATCH", l, "panic", Ev.panic>>) /\ FALSE
Reads == IF Has(Ev, "reads") THEN Ev.reads ELSE <<>>

(* the hook observation after the call must equal the specified state *)
ObsOk(st) ==
  Has(Ev, "obs") =>
     /\ Expect("pool", st.pool, Ev.obs.pool)
     /\ Expect("rounds", st.rounds, Ev.obs.rounds)
     /\ Expect("mem_prev_index", st.mpi, Ev.obs.mpi)
     /\ Expect("half", st.half, Ev.obs.half)

TrReset == IsEvent("reset") /\ jit' = <<>>
TrTimer == IsEvent("timer") /\ UNCHANGED jit

TrNew ==
  /\ IsEvent("jit_new") /\ NoPanic
  /\ LET st == [pool |-> Zero(4), mpi |-> 0, rounds |-> 64, half |-> FALSE] IN
       /\ ObsOk(st) /\ Expect("reads", <<>>, Reads)
       /\ jit' = (Ev.g :> st) @@ jit

(* set_rounds(0) is the one documented panic *)
TrSetRounds ==
  /\ IsEvent("set_rounds") /\ Ev.g \in DOMAIN jit
  /\ Expect("reads", <<>>, Reads)
  /\ IF Ev.r = 0
     THEN /\ Expect("set_rounds(0) panics", TRUE, Has(Ev, "panic"))
          /\ ObsOk(jit[Ev.g]) /\ UNCHANGED jit
     ELSE /\ NoPanic
          /\ LET st == [jit[Ev.g] EXCEPT !.rounds = Ev.r] IN ObsOk(st) /\ jit' = [jit EXCEPT ![Ev.g] = st]

(* The plans of module JitterApi (what TLC model-checks for C16), executed on concrete state:   *)
(* a step that collects runs one collection on the readings from the current offset; the part  *)
(* it hands out is taken from the pool.  acc = [ok, off, dis, st, bytes].                       *)
JA == INSTANCE JitterApi WITH Inst <- {}, MaxTok <- 0, FillLens <- {}, CloneCopiesFlag <- FALSE,
                              alive <- {}, tok <- <<>>, pend <- <<>>, handed <- {}, dup <- FALSE, ntok <- 0
RunPlan(st0, plan, rd, mode) ==
  FoldLeft(LAMBDA acc, s :
     IF ~acc.ok THEN acc
     ELSE LET c == IF s.collect THEN Collect(acc.st.pool, acc.st.mpi, acc.st.rounds, rd, acc.off, mode)
                   ELSE [ok |-> TRUE, pool |-> acc.st.pool, mpi |-> acc.st.mpi, used |-> 0, dis |-> FALSE]
              word == CASE s.part = "whole" -> c.pool [] s.part = "lo" -> Lo32(c.pool) [] s.part = "hi" -> Hi32(c.pool)
                        [] s.part = "drop" -> c.pool                  \* nothing is taken from it (take = 0)
          IN [ok |-> c.ok, off |-> acc.off + c.used, dis |-> acc.dis \/ c.dis,
              st |-> [acc.st EXCEPT !.pool = c.pool, !.mpi = c.mpi, !.half = s.pend],
              bytes |-> acc.bytes \o SubSeq(ToBytesLE(word), 1, s.take)],
     [ok |-> TRUE, off |-> 0, dis |-> FALSE, st |-> st0, bytes |-> <<>>], plan)
(* deterministic: the stuck test takes its differences mod 2^32 (see Jitter.tla) *)
Outcomes(st0, plan, rd) == {RunPlan(st0, plan, rd, "W")}

Output(plan, retOf(_)) ==
  /\ NoPanic /\ Ev.g \in DOMAIN jit
  /\ \E r \in Outcomes(jit[Ev.g], plan, Reads) :
       /\ Expect("collections consume exactly the readings", <<TRUE, Len(Reads)>>, <<r.ok, r.off>>)
       /\ Expect("ret", retOf(r.bytes), Ev.ret)
       /\ ObsOk(r.st)
       /\ jit' = [jit EXCEPT ![Ev.g] = r.st]

(* A timer that FAILS while a collection is in progress (the harness arms its scripted timer: one read panics      *)
(* instead of returning) unwinds the output call.  A call that read the timer had started a fresh collection, and   *)
(* an output call that starts a fresh collection discards a pending half (C16): after the unwinding no half is     *)
(* owed, so the next next_u32 collects afresh.  What the interrupted collection leaves in the pool and the memory  *)
(* walk is specified by no property: it is adopted from the observation.                                            *)
Faulted == Has(Ev, "panic") /\ Ev.panic = "scripted timer fault"
TrArmFault == IsEvent("arm_fault") /\ NoPanic /\ Ev.g \in DOMAIN jit /\ ObsOk(jit[Ev.g]) /\ UNCHANGED jit
TrFault ==
  /\ (IsEvent("next_u64") \/ IsEvent("next_u32") \/ IsEvent("fill_bytes"))
  /\ Ev.g \in DOMAIN jit /\ Faulted /\ Has(Ev, "obs")
  /\ LET st == [jit[Ev.g] EXCEPT !.pool = Ev.obs.pool, !.mpi = Ev.obs.mpi, !.half = FALSE] IN
       /\ Expect("rounds", st.rounds, Ev.obs.rounds)
       /\ Expect("half owed after an output call was unwound by its timer", FALSE, Ev.obs.half)
       /\ jit' = [jit EXCEPT ![Ev.g] = st]

TrNextU64 == IsEvent("next_u64") /\ Ev.g \in DOMAIN jit /\ ~Faulted /\ Output(JA!PlanU64, FromBytesLE)
TrNextU32 == IsEvent("next_u32") /\ Ev.g \in DOMAIN jit /\ ~Faulted /\ Output(JA!PlanU32(jit[Ev.g].half), FromBytesLE)
TrFill    == IsEvent("fill_bytes") /\ Ev.g \in DOMAIN jit /\ ~Faulted
             /\ \E plan \in JA!PlanFillSet(jit[Ev.g].half, Ev.n) : Output(plan, LAMBDA b : b)

TrTimerStats ==
  /\ IsEvent("timer_stats") /\ NoPanic /\ Ev.g \in DOMAIN jit
  /\ LET s0 == jit[Ev.g]
         r == TimerStats(s0.pool, s0.mpi, Ev.var, Reads)
         st == [s0 EXCEPT !.pool = r.pool, !.mpi = r.mpi]
     IN /\ Expect("readings consumed", TRUE, r.ok)
        /\ Expect("ret", r.ret, Ev.ret)
        /\ ObsOk(st)
        /\ jit' = [jit EXCEPT ![Ev.g] = st]

(* test_timer (C13): the outcome must be allowed by the relation of module TestTimer on the    *)
(* readings actually consumed.  What test_timer leaves in the pool is not specified by any      *)
(* property: the observed pool / position are adopted.                                          *)
TrTestTimer ==
  /\ IsEvent("test_timer") /\ NoPanic /\ Ev.g \in DOMAIN jit
  /\ LET s == Summary(Reads) IN
       /\ IF Has(Ev, "ok_rounds")
          THEN IF OkAllowed(Ev.ok_rounds, s) THEN TRUE
               ELSE PrintT(<<"MISMATCH", l, "test_timer Ok(r) not allowed", "r", Ev.ok_rounds, "summary",
                             [s EXCEPT !.means = {BitLenW(m) : m \in s.means}], "mean", s.mainMean>>) /\ FALSE
          ELSE IF ErrAllowed(Ev.err, s) THEN TRUE
               ELSE PrintT(<<"MISMATCH", l, "test_timer Err(e) names a condition that does not hold", "e", Ev.err,
                             "summary", [s EXCEPT !.means = {BitLenW(m) : m \in s.means}], "mean", s.mainMean>>) /\ FALSE
       /\ IF Has(Ev, "err_text") /\ ~TextAllowed(Ev.err_text, s)
          THEN PrintT(<<"MISMATCH", l, "the text of test_timer's error names a condition that does not hold", "text", Ev.err_text,
                        "variant", Ev.err>>) /\ FALSE
          ELSE TRUE
       \* the documented idiom rng.set_rounds(rng.test_timer()?) must not meet the assertion
       /\ Has(Ev, "set_panic") => Expect("set_rounds(test_timer()?) panics", FALSE, Ev.set_panic)
       /\ LET newRounds == IF Has(Ev, "set_panic") /\ ~Ev.set_panic THEN Ev.ok_rounds ELSE jit[Ev.g].rounds IN
            /\ jit' = [jit EXCEPT ![Ev.g] = IF Has(Ev, "obs")
                         THEN [@ EXCEPT !.pool = Ev.obs.pool, !.mpi = Ev.obs.mpi, !.rounds = newRounds]
                         ELSE [@ EXCEPT !.rounds = newRounds]]
            /\ Has(Ev, "obs") => /\ Expect("rounds", newRounds, Ev.obs.rounds)
                                 /\ Expect("half", jit[Ev.g].half, Ev.obs.half)

(* Clone: same pool, rounds and walk position; the pending half stays with the original *)
TrClone ==
  /\ IsEvent("clone") /\ NoPanic /\ Ev.g \in DOMAIN jit
  /\ Expect("ok", TRUE, Ev.ok)
  /\ Expect("reads", <<>>, Reads)
  /\ LET st == [jit[Ev.g] EXCEPT !.half = JA!ClonePend] IN
       /\ Has(Ev, "obs_to") =>
            /\ Expect("clone pool", st.pool, Ev.obs_to.pool) /\ Expect("clone rounds", st.rounds, Ev.obs_to.rounds)
            /\ Expect("clone mem_prev_index", st.mpi, Ev.obs_to.mpi) /\ Expect("clone half", FALSE, Ev.obs_to.half)
       /\ ObsOk(jit[Ev.g])
       /\ jit' = (Ev.to :> st) @@ jit

(* Clone::clone_from(g <- from): g becomes a copy of `from` without a claim on any pending half *)
TrCloneFrom ==
  /\ IsEvent("clone_from") /\ NoPanic /\ Ev.g \in DOMAIN jit /\ Ev.from \in DOMAIN jit
  /\ Expect("ok", TRUE, Ev.ok)
  /\ Expect("reads", <<>>, Reads)
  /\ LET st == [jit[Ev.from] EXCEPT !.half = JA!ClonePend] IN
       /\ ObsOk(st)
       /\ Has(Ev, "obs_from") => /\ Expect("source pool", jit[Ev.from].pool, Ev.obs_from.pool)
                                 /\ Expect("source half", jit[Ev.from].half, Ev.obs_from.half)
       /\ jit' = [jit EXCEPT ![Ev.g] = st]

(* hooks: overwrite the pool / run the stir step once (C15 extraction) *)
TrSetPool ==
  /\ IsEvent("set_pool") /\ NoPanic /\ Ev.g \in DOMAIN jit
  /\ LET st == [jit[Ev.g] EXCEPT !.pool = Ev.pool] IN ObsOk(st) /\ jit' = [jit EXCEPT ![Ev.g] = st]
TrStir ==
  /\ IsEvent("stir") /\ NoPanic /\ Ev.g \in DOMAIN jit
  /\ LET st == [jit[Ev.g] EXCEPT !.pool = Stir(@)] IN ObsOk(st) /\ jit' = [jit EXCEPT ![Ev.g] = st]
(* harness-only: the scripted timer's cursor is re-seated; the generator is not touched *)
TrSeek == IsEvent("seek") /\ NoPanic /\ Ev.g \in DOMAIN jit /\ ObsOk(jit[Ev.g]) /\ UNCHANGED jit
TrDebug == IsEvent("debug") /\ NoPanic /\ UNCHANGED jit
TrDrop == IsEvent("drop") /\ UNCHANGED jit
(* JitterRng::new() with the platform timer: a smoke run; only "did not panic" is specified *)
TrStdNew == /\ (IsEvent("jit_std_new") \/ IsEvent("jit_std_new_parallel")) /\ NoPanic
            /\ Has(Ev, "half_after_new") => Expect("a generator fresh from JitterRng::new() owes no half", FALSE, Ev.half_after_new)
            /\ UNCHANGED jit

(* A generator that is Copy can be duplicated by value, which is a clone nobody wrote.  Like every clone (JA!ClonePend)  *)
(* the duplicate owns no half: its first next_u32 collects afresh, so it reads the timer.  (The probe is made while the *)
(* original owes a half; "possible" is whether the type is Copy at all.)                                                *)
TrByValueCopy == /\ IsEvent("by_value_copy") /\ NoPanic
                 /\ Ev.possible => Expect("the first next_u32 of a by-value duplicate (made while the original owes a half) reads the timer",
                                          TRUE, Ev.dup_reads > 0)
                 /\ UNCHANGED jit

Init == l = 1 /\ jit = <<>>
Next == \/ TrReset \/ TrTimer \/ TrNew \/ TrSetRounds \/ TrNextU64 \/ TrNextU32 \/ TrFill \/ TrTimerStats
        \/ TrTestTimer \/ TrClone \/ TrCloneFrom \/ TrSetPool \/ TrStir \/ TrSeek \/ TrDebug \/ TrDrop \/ TrStdNew \/ TrByValueCopy \/ TrArmFault \/ TrFault
Spec == Init /\ [][Next]_vars
Accepted ==
  IF TLCGet("stats").diameter - 1 = Len(Rec) THEN TRUE
  ELSE PrintT(<<"UNMATCHED", TLCGet("stats").diameter, Len(Rec)>>) /\ FALSE
=============================================================================

----------------------------- MODULE Trace_Full -----------------------------
(***************************************************************************)
(* Trace validation against the composed model Rngs: every constructor,    *)
(* next_u32 / next_u64 / fill_bytes(n) in any interleaving, jump and       *)
(* long_jump of the 19 deterministic generator types must return exactly   *)
(* the bytes the published algorithm + the seeding protocol + the stream   *)
(* projection determine.  No twin is involved: events carrying a "role"    *)
(* (twins of other trace specifications) are validated like any other.     *)
(***************************************************************************)
EXTENDS Rngs, Json, IOUtils
Rec == ndJsonDeserialize(IOEnv.TRACE)
VARIABLES l, gens
vars == <<l, gens>>
Ev == Rec[l]
Has(r, f) == f \in DOMAIN r
Expect(what, spec, impl) ==
  IF spec = impl THEN TRUE
  ELSE PrintT(<<"MISMATCH", l, what, "spec", spec, "impl", impl>>) /\ FALSE
IsEvent(e) == l <= Len(Rec) /\ Ev.e = e /\ l' = l + 1
NoPanic == IF ~Has(Ev, "panic") THEN TRUE ELSE PrintT(<<"MISMATCH", l, "panic", Ev.panic>>) /\ FALSE
Det == AlgKinds         \* every kind except JitterRng
SameShape(a, b) == /\ Len(a) = Len(b) /\ \A i \in 1..Len(a) : Len(a[i]) = Len(b[i])
ObsOk(G) == (Has(Ev, "obs") /\ Has(Ev.obs, "s")) =>
              IF SameShape(AlgImage(G.k, G.s), Ev.obs.s) THEN Expect("state image", AlgImage(G.k, G.s), Ev.obs.s)
              ELSE PrintT(<<"IMAGE-NOTE", l, "the state image has another shape than the specification's state; not compared">>)

TrReset == IsEvent("reset") /\ gens' = <<>>
TrFromSeed == /\ IsEvent("from_seed") /\ NoPanic /\ Ev.kind \in Det
              /\ LET G == GenFromSeed(Ev.kind, Ev.seed) IN ObsOk(G) /\ gens' = (Ev.g :> G) @@ gens
TrFromU64 == /\ IsEvent("seed_from_u64") /\ NoPanic /\ Ev.kind \in Det
             /\ LET G == GenFromU64(Ev.kind, Ev.x) IN ObsOk(G) /\ gens' = (Ev.g :> G) @@ gens
(* n repeated calls fold into one event: ret is then the list of results *)
Repeat(G, n, call(_)) ==
  FoldLeft(LAMBDA acc, i : LET r == call(acc[2]) IN <<Append(acc[1], r[1]), r[2]>>, <<<<>>, G>>, Idx(n))
TrNext(e) ==
  /\ IsEvent(e) /\ NoPanic /\ Ev.g \in DOMAIN gens
  /\ LET G == gens[Ev.g]
         call(H) == IF e = "next_u32" THEN CallU32(H) ELSE CallU64(H)
     IN IF Has(Ev, "n")
        THEN LET r == Repeat(G, Ev.n, call) IN
             /\ Expect("ret", r[1], [i \in 1..Len(Ev.ret) |-> ToBytesLE(Ev.ret[i])])
             /\ ObsOk(r[2]) /\ gens' = [gens EXCEPT ![Ev.g] = r[2]]
        ELSE LET r == call(G) IN
             /\ Expect("ret", r[1], ToBytesLE(Ev.ret))
             /\ ObsOk(r[2]) /\ gens' = [gens EXCEPT ![Ev.g] = r[2]]
TrFill ==
  /\ IsEvent("fill_bytes") /\ NoPanic /\ Ev.g \in DOMAIN gens
  /\ LET r == CallFill(gens[Ev.g], Ev.n) IN
       \/ /\ Expect("ret", r[1], Ev.ret) /\ ObsOk(r[2]) /\ gens' = [gens EXCEPT ![Ev.g] = r[2]]
       \/ /\ Ev.n = 0 /\ gens[Ev.g].pend = 1 /\ Ev.ret = <<>>          \* left open, see Stream!SFill
          /\ gens' = [gens EXCEPT ![Ev.g].pend = 0]
TrJump(e) ==
  /\ IsEvent(e) /\ NoPanic /\ Ev.g \in DOMAIN gens
  /\ gens[Ev.g].k \in XoKinds /\ HasJump(gens[Ev.g].k) /\ gens[Ev.g].pend = 0
  /\ LET G == CallJump(gens[Ev.g], e = "long_jump") IN ObsOk(G) /\ gens' = [gens EXCEPT ![Ev.g] = G]
TrClone == /\ IsEvent("clone") /\ NoPanic /\ Ev.g \in DOMAIN gens
           /\ gens' = (Ev.to :> gens[Ev.g]) @@ gens
TrCloneFrom == /\ IsEvent("clone_from") /\ NoPanic /\ Ev.g \in DOMAIN gens /\ Ev.from \in DOMAIN gens
               /\ Expect("clone_from succeeded", TRUE, Ev.ok)
               /\ gens' = [gens EXCEPT ![Ev.g] = gens[Ev.from]]
TrQuiet(e) == IsEvent(e) /\ UNCHANGED gens

Init == l = 1 /\ gens = <<>>
Next == \/ TrReset \/ TrFromSeed \/ TrFromU64 \/ TrNext("next_u32") \/ TrNext("next_u64") \/ TrFill
        \/ TrJump("jump") \/ TrJump("long_jump") \/ TrClone \/ TrCloneFrom
        \/ TrQuiet("debug") \/ TrQuiet("bg_start") \/ TrQuiet("bg_stop") \/ TrQuiet("drop")
Spec == Init /\ [][Next]_vars
Accepted ==
  IF TLCGet("stats").diameter - 1 = Len(Rec) THEN TRUE
  ELSE PrintT(<<"UNMATCHED", TLCGet("stats").diameter, Len(Rec)>>) /\ FALSE
=============================================================================

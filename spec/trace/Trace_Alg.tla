------------------------------ MODULE Trace_Alg ------------------------------
(***************************************************************************)
(* Trace validation, implementation -> specification, for the "the code is *)
(* algorithm X" properties (C01, C04; jump conformance of C06).  Every     *)
(* event recorded from the real types is one step; the reference semantics *)
(* of module Alg computes the successor state and the output, and the step *)
(* is enabled only if every logged value (outputs, state image) agrees.    *)
(* Acceptance: POSTCONDITION Accepted (all events consumed).               *)
(***************************************************************************)
EXTENDS Alg, Json, IOUtils, TLC
Rec == ndJsonDeserialize(IOEnv.TRACE)
VARIABLES l, gens, srcs
vars == <<l, gens, srcs>>
Ev == Rec[l]
Has(r, f) == f \in DOMAIN r

(* diagnostics: a failed expectation prints what the spec computed *)
Expect(what, spec, impl) ==
  IF spec = impl THEN TRUE
  ELSE PrintT(<<"MISMATCH", l, what, "spec", spec, "impl", impl>>) /\ FALSE

IsEvent(e) == l <= Len(Rec) /\ Ev.e = e /\ l' = l + 1
NoPanic == IF ~Has(Ev, "panic") THEN TRUE ELSE PrintT(<<"MISMATCH", l, "panic", Ev.panic>>) /\ FALSE
(* The serde image of a plain type is an OBSERVATION channel, not part of any property: it is compared with the      *)
(* specification's state only when it has the specification's shape (as many words of as many limbs).  A type whose  *)
(* representation was changed (another number of fields, a ring buffer with a head index, ...) is then judged by its  *)
(* outputs alone; a note is printed.                                                                                 *)
SameShape(a, b) == /\ Len(a) = Len(b) /\ \A i \in 1..Len(a) : Len(a[i]) = Len(b[i])
ObsOk(k, s) == Has(Ev, "obs") /\ Has(Ev.obs, "s") =>
                 IF SameShape(AlgImage(k, s), Ev.obs.s) THEN Expect("state image", AlgImage(k, s), Ev.obs.s)
                 ELSE PrintT(<<"IMAGE-NOTE", l, "the state image has another shape than the specification's state; not compared">>)

TrReset == IsEvent("reset") /\ gens' = <<>> /\ srcs' = <<>>

(* from_seed through the seeding protocol (module Seeding): the all-zero seed of a linear *)
(* generator is remapped as documented, every other seed is used verbatim                 *)
TrFromSeed ==
  /\ IsEvent("from_seed") /\ NoPanic
  /\ Ev.kind \in AlgKinds
  /\ Len(Ev.seed) = AlgSeedLen(Ev.kind)
  /\ LET s == ResolveD(Ev.kind, FromSeedD(SeedClass(Ev.kind), Ev.seed)) IN
       /\ Expect("ok", TRUE, Ev.ok)
       /\ ObsOk(Ev.kind, s)
       /\ gens' = (Ev.g :> [k |-> Ev.kind, s |-> s]) @@ gens
  /\ UNCHANGED srcs

(* the bare block cores (BlockRngCore::generate called directly): the same algorithm state as the wrapper type; one   *)
(* generate call returns the next whole block of the word stream                                                     *)
CoreKinds == {"Hc128Core", "IsaacCore", "Isaac64Core"}
CoreOf(k) == CASE k = "Hc128Core" -> "Hc128Rng" [] k = "IsaacCore" -> "IsaacRng" [] k = "Isaac64Core" -> "Isaac64Rng" [] OTHER -> k
BlockWords(k) == IF k = "Hc128Rng" THEN 16 ELSE 256
TrFromSeedCore ==
  /\ IsEvent("from_seed") /\ NoPanic
  /\ Ev.kind \in CoreKinds
  /\ Len(Ev.seed) = AlgSeedLen(CoreOf(Ev.kind))
  /\ LET k == CoreOf(Ev.kind)
         s == ResolveD(k, FromSeedD(SeedClass(k), Ev.seed)) IN
       /\ Expect("ok", TRUE, Ev.ok)
       /\ gens' = (Ev.g :> [k |-> k, s |-> s]) @@ gens
  /\ UNCHANGED srcs
TrGenerate ==
  /\ IsEvent("generate") /\ NoPanic
  /\ Ev.g \in DOMAIN gens /\ gens[Ev.g].k \in {"Hc128Rng", "IsaacRng", "Isaac64Rng"}
  /\ LET G == gens[Ev.g]
         r == AlgTake(G.k, G.s, BlockWords(G.k))
     IN /\ Expect("block", r[2], Ev.ret)
        /\ gens' = [gens EXCEPT ![Ev.g].s = r[1]]
  /\ UNCHANGED srcs

(* a plain generator restored from a literal bincode image (= its state words, little-endian): whatever state a    *)
(* generator is in - seeded, jumped, restored - one step returns the reference word and reaches the reference         *)
(* successor.  Only when the image has the shape of the specification's state (see ObsOk).                           *)
TrDeImage ==
  /\ IsEvent("de_image") /\ NoPanic
  /\ Ev.kind \in AlgKinds /\ Len(Ev.image) = AlgSeedLen(Ev.kind)
  /\ LET s == ResolveD(Ev.kind, <<"verbatim", Ev.image>>) IN
       /\ Expect("ok", TRUE, Has(Ev, "ok") /\ Ev.ok)
       /\ gens' = (Ev.to :> [k |-> Ev.kind, s |-> s]) @@ gens
  /\ UNCHANGED srcs

(* Default::default(), where a type has it, is a constructor like any other.  No property says which generator it is; *)
(* what it must not be is the all-zero state of a linear engine (C07 / C08).  The state is adopted from its image.      *)
TrDefault ==
  /\ IsEvent("default_ctor") /\ NoPanic /\ Ev.kind \in AlgKinds
  /\ IF Has(Ev, "ok") /\ Ev.ok /\ Has(Ev, "image") /\ Len(Ev.image) = AlgSeedLen(Ev.kind)
     THEN /\ Ev.kind \in LinearKinds =>
               Expect("Default::default() is the all-zero state of a linear engine", FALSE, AllZero(Ev.image))
          /\ gens' = (Ev.g :> [k |-> Ev.kind, s |-> ResolveD(Ev.kind, <<"verbatim", Ev.image>>)]) @@ gens
     ELSE gens' = [g \in (DOMAIN gens) \ {Ev.g} |-> gens[g]]
  /\ UNCHANGED srcs

TrSeedFromU64 ==
  /\ IsEvent("seed_from_u64") /\ NoPanic
  /\ Ev.kind \in AlgKinds
  /\ LET s == SeedFromU64State(Ev.kind, Ev.x) IN
       /\ Expect("ok", TRUE, Ev.ok)
       /\ ObsOk(Ev.kind, s)
       /\ gens' = (Ev.g :> [k |-> Ev.kind, s |-> s]) @@ gens
  /\ UNCHANGED srcs

(* byte sources and from_rng / try_from_rng *)
TrSrc ==
  /\ IsEvent("src")
  /\ srcs' = (Ev.s :> [bytes |-> Ev.bytes, lead |-> IF Has(Ev, "lead") THEN Ev.lead ELSE 0, pos |-> 0, calls |-> 0,
                       fallible |-> (Has(Ev, "fallible") /\ Ev.fallible),
                       failAt |-> IF Has(Ev, "fail_at") THEN Ev.fail_at ELSE 0,
                       partial |-> IF Has(Ev, "partial") THEN Ev.partial ELSE 0,
                       sticky |-> (Has(Ev, "sticky") /\ Ev.sticky)]) @@ srcs
  /\ UNCHANGED gens
LogDelivered(lg) == FoldLeft(LAMBDA a, e : a + e[2], 0, lg)
ImplLogFailed(lg) == \E i \in 1..Len(lg) : lg[i][1] \in {"try_fill_bytes!", "try_next_u32!", "try_next_u64!"}
ImplLogFillOnly(lg) == \A i \in 1..Len(lg) : lg[i][1] \in {"fill_bytes", "try_fill_bytes!"}
TrFromRng(e) ==
  /\ IsEvent(e) /\ NoPanic
  /\ Ev.kind \in AlgKinds /\ Ev.s \in DOMAIN srcs
  /\ (e = "from_rng") = ~srcs[Ev.s].fallible
  /\ LET k == Ev.kind
         r == FromRngD(SeedClass(k), AlgSeedLen(k), FromRngLen(k), srcs[Ev.s])
     IN /\ Expect("ok", r.ok, Ev.ok)
        /\ Expect("source position after", r.src.pos, Ev.src_pos)
        \* the calls made on the source: the list, or (beyond 4096 calls) the harness's summary of it
        /\ Expect("bytes delivered by the source", LogDelivered(r.log),
                  IF Has(Ev, "src_log") THEN LogDelivered(Ev.src_log) ELSE Ev.src_delivered)
        /\ Expect("source failed during the call", ~r.ok,
                  IF Has(Ev, "src_log") THEN ImplLogFailed(Ev.src_log) ELSE Ev.src_failed)
        /\ Expect("only fill_bytes is used", TRUE,
                  IF Has(Ev, "src_log") THEN ImplLogFillOnly(Ev.src_log) ELSE Ev.src_fill_only)
        /\ srcs' = [srcs EXCEPT ![Ev.s] = [r.src EXCEPT !.calls = Ev.src_calls]]
        /\ IF r.ok
           THEN LET s == ResolveD(k, r.gen) IN
                /\ ObsOk(k, s)
                /\ gens' = (Ev.g :> [k |-> k, s |-> s]) @@ gens
           ELSE /\ Expect("an error carries no generator", FALSE, Has(Ev, "obs"))
                /\ gens' = [g \in (DOMAIN gens) \ {Ev.g} |-> gens[g]]

(* native-width outputs, singly or n at a time *)
Native(k, e) == \/ k = "SplitMix64" /\ e = "next_u64"
                \/ k # "SplitMix64" /\ OutLimbs(k) = 2 /\ e = "next_u32"
                \/ k # "SplitMix64" /\ OutLimbs(k) = 4 /\ e = "next_u64"
TrNext(e) ==
  /\ IsEvent(e) /\ NoPanic
  /\ Ev.g \in DOMAIN gens
  /\ LET G == gens[Ev.g] IN
       /\ Native(G.k, e)
       /\ LET n == IF Has(Ev, "n") THEN Ev.n ELSE 1
              r == AlgTake(G.k, G.s, n)
          IN /\ Expect("ret", IF Has(Ev, "n") THEN r[2] ELSE r[2][1], Ev.ret)
             /\ ObsOk(G.k, r[1])
             /\ gens' = [gens EXCEPT ![Ev.g].s = r[1]]
  /\ UNCHANGED srcs

(* The other stepping paths of a LINEAR generator (next_u64 of a 32-bit-word type = two engine steps,  *)
(* next_u32 of a 64-bit-word type = one step, fill_bytes(8) = 8 / word bytes steps): only the STATE     *)
(* they leave is specified here (C07: every path advances the one engine); the returned value is C05's. *)
(* fill_bytes(n) = n \div 8 next_u64 and, for a tail, one more next_u64 (5..7 bytes) or next_u32 (1..4 bytes) *)
StepsOf(k, e) == IF e = "fill_bytes"
                 THEN LET q == Ev.n \div 8  tail == Ev.n % 8
                          per64 == IF OutLimbs(k) = 2 THEN 2 ELSE 1
                      IN q * per64 + (IF tail > 4 THEN per64 ELSE IF tail > 0 THEN 1 ELSE 0)
                 ELSE IF OutLimbs(k) = 2 THEN (IF e = "next_u32" THEN 1 ELSE 2) ELSE 1
TrStatePath(e) ==
  /\ IsEvent(e) /\ NoPanic
  /\ Ev.g \in DOMAIN gens
  /\ LET G == gens[Ev.g] IN
       /\ G.k \in LinearKinds /\ ~Native(G.k, e) /\ ~Has(Ev, "role")
       /\ e = "fill_bytes" => Ev.n > 0
       /\ ~Has(Ev, "n") \/ e = "fill_bytes"
       /\ LET r == AlgTake(G.k, G.s, StepsOf(G.k, e)) IN
            /\ ObsOk(G.k, r[1])
            /\ gens' = [gens EXCEPT ![Ev.g].s = r[1]]
  /\ UNCHANGED srcs

(* SplitMix64::next_u32: the Mix4 finalizer of the same counter step *)
TrSmNext32 ==
  /\ IsEvent("next_u32") /\ NoPanic
  /\ Ev.g \in DOMAIN gens /\ gens[Ev.g].k = "SplitMix64"
  /\ LET n == IF Has(Ev, "n") THEN Ev.n ELSE 1
         r == FoldLeft(LAMBDA acc, i : LET q == SmNext32(acc[1]) IN <<q[1], Append(acc[2], q[2])>>,
                       <<gens[Ev.g].s, <<>>>>, Idx(n))
     IN /\ Expect("ret", IF Has(Ev, "n") THEN r[2] ELSE r[2][1], Ev.ret)
        /\ ObsOk("SplitMix64", r[1])
        /\ gens' = [gens EXCEPT ![Ev.g].s = r[1]]
  /\ UNCHANGED srcs

TrJump(e) ==
  /\ IsEvent(e) /\ NoPanic
  /\ Ev.g \in DOMAIN gens
  /\ LET G == gens[Ev.g] IN
       /\ G.k \in XoKinds /\ HasJump(G.k)
       /\ LET s2 == IF e = "jump" THEN XoJump(G.k, G.s) ELSE XoLongJump(G.k, G.s) IN
            /\ Expect("ok", TRUE, Ev.ok)
            /\ ObsOk(G.k, s2)
            /\ gens' = [gens EXCEPT ![Ev.g].s = s2]
  /\ UNCHANGED srcs

(* == between two tracked generators must agree with equality of reference states *)
TrEq ==
  /\ IsEvent("eq") /\ NoPanic
  /\ Ev.a \in DOMAIN gens /\ Ev.b \in DOMAIN gens
  /\ gens[Ev.a].k = gens[Ev.b].k
  /\ Expect("eq", gens[Ev.a].s = gens[Ev.b].s, Ev.ret)
  /\ UNCHANGED <<gens, srcs>>

TrDrop == IsEvent("drop") /\ gens' = [g \in (DOMAIN gens) \ {Ev.g} |-> gens[g]] /\ UNCHANGED srcs

Init == l = 1 /\ gens = <<>> /\ srcs = <<>>
Next == \/ TrReset \/ TrFromSeed \/ TrFromSeedCore \/ TrGenerate \/ TrDeImage \/ TrDefault \/ TrSeedFromU64 \/ TrSrc \/ TrFromRng("from_rng") \/ TrFromRng("try_from_rng") \/ TrNext("next_u32") \/ TrNext("next_u64") \/ TrSmNext32
        \/ TrJump("jump") \/ TrJump("long_jump") \/ TrEq \/ TrDrop
        \/ TrStatePath("next_u32") \/ TrStatePath("next_u64") \/ TrStatePath("fill_bytes")
Spec == Init /\ [][Next]_vars

Accepted ==
  IF TLCGet("stats").diameter - 1 = Len(Rec) THEN TRUE
  ELSE PrintT(<<"UNMATCHED", TLCGet("stats").diameter, Len(Rec)>>) /\ FALSE
=============================================================================

------------------------------ MODULE Trace_Alg ------------------------------
(***************************************************************************)
(* Trace validation, implementation -> specification, for the "the code is *)
(* algorithm X" properties (C01, C04; jump conformance of C06).  Every     *)
(* event recorded from the real types is one step; the reference semantics *)
(* of module Alg computes the successor state and the output, and the step *)
(* is enabled only if every logged value (outputs, state image) agrees.    *)
(* Acceptance: POSTCONDITION Accepted (all events consumed).               *)
(***************************************************************************)
EXTENDS Alg, Json, IOUtils, TLC
Rec == ndJsonDeserialize(IOEnv.TRACE)
VARIABLES l, gens
vars == <<l, gens>>
Ev == Rec[l]
Has(r, f) == f \in DOMAIN r

(* diagnostics: a failed expectation prints what the spec computed *)
Expect(what, spec, impl) ==
  IF spec = impl THEN TRUE
  ELSE PrintT(<<"MISMATCH", l, what, "spec", spec, "impl", impl>>) /\ FALSE

IsEvent(e) == l <= Len(Rec) /\ Ev.e = e /\ l' = l + 1
NoPanic == IF ~Has(Ev, "panic") THEN TRUE ELSE PrintT(<<"MISMATCH", l, "panic", Ev.panic>>) /\ FALSE
ObsOk(k, s) == Has(Ev, "obs") /\ Has(Ev.obs, "s") => Expect("state image", AlgImage(k, s), Ev.obs.s)

TrReset == IsEvent("reset") /\ gens' = <<>>

(* from_seed with a seed that is not all zero: the state is the seed's words *)
TrFromSeed ==
  /\ IsEvent("from_seed") /\ NoPanic
  /\ Ev.kind \in AlgKinds
  /\ Len(Ev.seed) = AlgSeedLen(Ev.kind)
  /\ LET s == AlgOfSeed(Ev.kind, Ev.seed) IN
       /\ ~(Ev.kind \in LinearKinds /\ AlgIsZero(Ev.kind, s))   \* zero seeds: module Seeding
       /\ Expect("ok", TRUE, Ev.ok)
       /\ ObsOk(Ev.kind, s)
       /\ gens' = (Ev.g :> [k |-> Ev.kind, s |-> s]) @@ gens

(* native-width outputs, singly or n at a time *)
Native(k, e) == \/ k = "SplitMix64" /\ e = "next_u64"
                \/ k # "SplitMix64" /\ OutLimbs(k) = 2 /\ e = "next_u32"
                \/ k # "SplitMix64" /\ OutLimbs(k) = 4 /\ e = "next_u64"
TrNext(e) ==
  /\ IsEvent(e) /\ NoPanic
  /\ Ev.g \in DOMAIN gens
  /\ LET G == gens[Ev.g] IN
       /\ Native(G.k, e)
       /\ LET n == IF Has(Ev, "n") THEN Ev.n ELSE 1
              r == AlgTake(G.k, G.s, n)
          IN /\ Expect("ret", IF Has(Ev, "n") THEN r[2] ELSE r[2][1], Ev.ret)
             /\ ObsOk(G.k, r[1])
             /\ gens' = [gens EXCEPT ![Ev.g].s = r[1]]

(* SplitMix64::next_u32: the Mix4 finalizer of the same counter step *)
TrSmNext32 ==
  /\ IsEvent("next_u32") /\ NoPanic
  /\ Ev.g \in DOMAIN gens /\ gens[Ev.g].k = "SplitMix64"
  /\ LET n == IF Has(Ev, "n") THEN Ev.n ELSE 1
         r == FoldLeft(LAMBDA acc, i : LET q == SmNext32(acc[1]) IN <<q[1], Append(acc[2], q[2])>>,
                       <<gens[Ev.g].s, <<>>>>, Idx(n))
     IN /\ Expect("ret", IF Has(Ev, "n") THEN r[2] ELSE r[2][1], Ev.ret)
        /\ ObsOk("SplitMix64", r[1])
        /\ gens' = [gens EXCEPT ![Ev.g].s = r[1]]

TrJump(e) ==
  /\ IsEvent(e) /\ NoPanic
  /\ Ev.g \in DOMAIN gens
  /\ LET G == gens[Ev.g] IN
       /\ G.k \in XoKinds /\ HasJump(G.k)
       /\ LET s2 == IF e = "jump" THEN XoJump(G.k, G.s) ELSE XoLongJump(G.k, G.s) IN
            /\ Expect("ok", TRUE, Ev.ok)
            /\ ObsOk(G.k, s2)
            /\ gens' = [gens EXCEPT ![Ev.g].s = s2]

(* == between two tracked generators must agree with equality of reference states *)
TrEq ==
  /\ IsEvent("eq") /\ NoPanic
  /\ Ev.a \in DOMAIN gens /\ Ev.b \in DOMAIN gens
  /\ gens[Ev.a].k = gens[Ev.b].k
  /\ Expect("eq", gens[Ev.a].s = gens[Ev.b].s, Ev.ret)
  /\ UNCHANGED gens

Init == l = 1 /\ gens = <<>>
Next == \/ TrReset \/ TrFromSeed \/ TrNext("next_u32") \/ TrNext("next_u64") \/ TrSmNext32
        \/ TrJump("jump") \/ TrJump("long_jump") \/ TrEq
Spec == Init /\ [][Next]_vars

Accepted ==
  IF TLCGet("stats").diameter - 1 = Len(Rec) THEN TRUE
  ELSE PrintT(<<"UNMATCHED", TLCGet("stats").diameter, Len(Rec)>>) /\ FALSE
=============================================================================

---------------------------- MODULE Trace_Stream ----------------------------
(***************************************************************************)
(* Trace validation for C05: every recorded next_u32 / next_u64 /          *)
(* fill_bytes of a real generator must be the step of module Stream (the   *)
(* property itself) from the instance's current (pos, pend), with the      *)
(* concrete words taken from an identically seeded twin that was driven    *)
(* with native-width calls only (event role "twin"; for SplitMix64 a       *)
(* second twin driven with next_u32 only supplies stream 1).               *)
(***************************************************************************)
EXTENDS Words, ApiClass, StreamOps, Json, IOUtils, TLC
Rec == ndJsonDeserialize(IOEnv.TRACE)
VARIABLES l, gens, words
vars == <<l, gens, words>>
Ev == Rec[l]
Has(r, f) == f \in DOMAIN r

Expect(what, spec, impl) ==
  IF spec = impl THEN TRUE
  ELSE PrintT(<<"MISMATCH", l, what, "spec", spec, "impl", impl>>) /\ FALSE
IsEvent(e) == l <= Len(Rec) /\ Ev.e = e /\ l' = l + 1
NoPanic == IF ~Has(Ev, "panic") THEN TRUE ELSE PrintT(<<"MISMATCH", l, "panic", Ev.panic>>) /\ FALSE
IsTwin == Has(Ev, "role")

(* resolve byte descriptors against the twin's recorded words *)
Resolve(g, o) ==
  LET W == words[g]
      one(d) == LET strm == IF d[1] = 0 THEN W.nat ELSE W.alt
                IN IF d[2] + 1 <= Len(strm) THEN SubSeq(ToBytesLE(strm[d[2] + 1]), d[3] + 1, d[4] + 1)
                   ELSE <<-1>>                                  \* twin too short: a tool error, never a match
  IN FoldLeft(LAMBDA acc, d : acc \o one(d), <<>>, o)

TrReset == IsEvent("reset") /\ gens' = <<>> /\ words' = <<>>

(* any constructor of a tracked generator starts it at position 0 *)
Ctor(e) ==
  /\ IsEvent(e) /\ NoPanic
  /\ Ev.kind \in ApiKinds
  /\ gens' = (Ev.g :> [c |-> ClassOf(Ev.kind), pos |-> 0, pend |-> 0, w |-> Ev.g]) @@ gens
  /\ UNCHANGED words
TrJitNew ==
  /\ IsEvent("jit_new") /\ NoPanic
  /\ gens' = (Ev.g :> [c |-> "half", pos |-> 0, pend |-> 0, w |-> Ev.g]) @@ gens
  /\ UNCHANGED words
TrSetRounds == IsEvent("set_rounds") /\ NoPanic /\ UNCHANGED <<gens, words>>
TrTimer == IsEvent("timer") /\ UNCHANGED <<gens, words>>
(* C19: unscripted background load on other threads does not concern the specification *)
TrBg(e) == IsEvent(e) /\ NoPanic /\ UNCHANGED <<gens, words>>

(* the twin: native-width calls only; its outputs ARE the word stream *)
TrTwin(e) ==
  /\ IsEvent(e) /\ IsTwin /\ NoPanic
  /\ LET old == IF Ev.of \in DOMAIN words THEN words[Ev.of] ELSE [nat |-> <<>>, alt |-> <<>>]
         new == IF Ev.role = "twin" THEN [old EXCEPT !.nat = Ev.ret] ELSE [old EXCEPT !.alt = Ev.ret]
     IN words' = (Ev.of :> new) @@ words
  /\ UNCHANGED gens

Step(g, r, retBytes) ==
  /\ Expect("ret", Resolve(gens[g].w, r.o), retBytes)
  /\ gens' = [gens EXCEPT ![g].pos = r.p, ![g].pend = r.h]
  /\ UNCHANGED words

TrNextU32 ==
  /\ IsEvent("next_u32") /\ ~IsTwin /\ NoPanic /\ Ev.g \in DOMAIN gens
  /\ LET G == gens[Ev.g] IN Step(Ev.g, SU32(G.c, G.pos, G.pend), ToBytesLE(Ev.ret))
TrNextU64 ==
  /\ IsEvent("next_u64") /\ ~IsTwin /\ NoPanic /\ Ev.g \in DOMAIN gens
  /\ LET G == gens[Ev.g] IN Step(Ev.g, SU64(G.c, G.pos, G.pend), ToBytesLE(Ev.ret))
TrFill ==
  /\ IsEvent("fill_bytes") /\ NoPanic /\ Ev.g \in DOMAIN gens
  /\ LET G == gens[Ev.g] IN
       \/ Step(Ev.g, SFill(G.c, G.pos, G.pend, Ev.n), Ev.ret)
       \/ /\ Ev.n = 0 /\ G.pend = 1 /\ Ev.ret = <<>>          \* left open by the property, see Stream!SFill
          /\ gens' = [gens EXCEPT ![Ev.g].pend = 0] /\ UNCHANGED words
       \/ /\ G.c = "half" /\ G.pend = 1 /\ Ev.n \in 1..4          \* the other open corner, see Stream!SFill
          /\ LET r == SFillFresh(G.pos, Ev.n) IN
               /\ Resolve(G.w, r.o) = Ev.ret
               /\ gens' = [gens EXCEPT ![Ev.g].pos = r.p, ![Ev.g].pend = r.h] /\ UNCHANGED words

Init == l = 1 /\ gens = <<>> /\ words = <<>>
Next == \/ TrReset \/ Ctor("from_seed") \/ Ctor("seed_from_u64") \/ TrJitNew \/ TrSetRounds \/ TrTimer \/ TrBg("bg_start") \/ TrBg("bg_stop")
        \/ TrTwin("next_u32") \/ TrTwin("next_u64")
        \/ TrNextU32 \/ TrNextU64 \/ TrFill
Spec == Init /\ [][Next]_vars
Accepted ==
  IF TLCGet("stats").diameter - 1 = Len(Rec) THEN TRUE
  ELSE PrintT(<<"UNMATCHED", TLCGet("stats").diameter, Len(Rec)>>) /\ FALSE
=============================================================================

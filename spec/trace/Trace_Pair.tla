----------------------------- MODULE Trace_Pair -----------------------------
(***************************************************************************)
(* Observational monitor for C10 (clone / == are congruences) and C11      *)
(* (serde snapshot restores the identical future).                         *)
(*                                                                         *)
(* Every instance carries an equivalence-class id cls[g]: instances of one *)
(* class are CLAIMED by the code to have identical futures.  A class is    *)
(* formed only by what the properties themselves state:                    *)
(*    clone(g -> h)            h joins g's class                           *)
(*    ser(g); de(g -> h)       h joins the class g had when serialized     *)
(*    eq(a,b) returned true    a and b are merged                          *)
(* and it is kept only by lock-step execution: the schedule applies an     *)
(* operation to a and then the same operation to b ("mirror": a); any      *)
(* operation applied to one member alone moves it to a fresh class.        *)
(*                                                                         *)
(* The trace is rejected exactly on an observed contradiction:             *)
(*   - a mirrored operation on two members of one class returned different *)
(*     values (or left different state images),                            *)
(*   - == returned false inside a class (a clone / restored / lock-stepped *)
(*     equal generator compares unequal),                                  *)
(*   - clone / deserialize failed where the type supports it.              *)
(* == returning false for unrelated generators is never an alarm           *)
(* (completeness of == is not required).                                   *)
(***************************************************************************)
EXTENDS Integers, Sequences, SequencesExt, Json, IOUtils, TLC
Rec == ndJsonDeserialize(IOEnv.TRACE)
VARIABLES l, cls, prev, snap, fresh
vars == <<l, cls, prev, snap, fresh>>
(* cls[g]  class id;  prev[g] class id g had before its last output operation;            *)
(* snap[g] class id at g's last ser;  fresh: next unused class id                         *)
Ev == Rec[l]
Has(r, f) == f \in DOMAIN r

Expect(what, a, b) ==
  IF a = b THEN TRUE ELSE PrintT(<<"MISMATCH", l, what, "first", a, "second", b>>) /\ FALSE
IsEvent(e) == l <= Len(Rec) /\ Ev.e = e /\ l' = l + 1
NoPanic == IF ~Has(Ev, "panic") THEN TRUE ELSE PrintT(<<"MISMATCH", l, "panic", Ev.panic>>) /\ FALSE
Set(f, g, v) == (g :> v) @@ f

TrReset == IsEvent("reset") /\ cls' = <<>> /\ prev' = <<>> /\ snap' = <<>> /\ fresh' = 1
Ctor(e) ==
  /\ IsEvent(e) /\ NoPanic
  /\ cls' = Set(cls, Ev.g, fresh) /\ prev' = Set(prev, Ev.g, 0) /\ fresh' = fresh + 1 /\ UNCHANGED snap
Passive(e) == IsEvent(e) /\ UNCHANGED <<cls, prev, snap, fresh>>

(* "skip": a long stretch of the stream drawn through fill_bytes or the native call, of which only a *)
(* digest of the bytes is recorded; two members of a class that skip the same number of bytes - by   *)
(* whichever route - must report the same digest (the byte stream is one: C05) and stay together     *)
OutputOps == {"next_u32", "next_u64", "fill_bytes", "generate", "jump", "long_jump", "skip"}
SameCall(a, b) == /\ a.e = b.e
                  /\ (Has(a, "n") <=> Has(b, "n")) /\ (Has(a, "n") => a.n = b.n)
                  /\ (Has(a, "bytes") <=> Has(b, "bytes")) /\ (Has(a, "bytes") => a.bytes = b.bytes)
                  /\ (Has(a, "kib") <=> Has(b, "kib")) /\ (Has(a, "kib") => a.kib = b.kib)
Result(ev) == <<IF Has(ev, "ret") THEN ev.ret ELSE "none", IF Has(ev, "ok") THEN ev.ok ELSE "none",
                IF Has(ev, "obs") THEN ev.obs ELSE "none", IF Has(ev, "digest") THEN ev.digest ELSE "none">>
(* an output operation applied to g alone, or mirroring the previous event *)
TrOutput(e) ==
  /\ IsEvent(e) /\ NoPanic /\ Ev.g \in DOMAIN cls
  /\ IF Has(Ev, "mirror") /\ l > 1 /\ Has(Rec[l - 1], "g") /\ Rec[l - 1].g = Ev.mirror
        /\ Ev.mirror \in DOMAIN prev /\ SameCall(Rec[l - 1], Ev) /\ prev[Ev.mirror] = cls[Ev.g]
     THEN \* both were in one class before the pair of calls: identical results, and they stay together
          /\ Expect("lock-step results of generators claimed equal", Result(Rec[l - 1]), Result(Ev))
          /\ cls' = Set(cls, Ev.g, cls[Ev.mirror]) /\ prev' = Set(prev, Ev.g, cls[Ev.g]) /\ UNCHANGED fresh
     ELSE /\ cls' = Set(cls, Ev.g, fresh) /\ prev' = Set(prev, Ev.g, cls[Ev.g]) /\ fresh' = fresh + 1
  /\ UNCHANGED snap

TrClone ==
  /\ IsEvent("clone") /\ NoPanic /\ Ev.g \in DOMAIN cls
  /\ Expect("clone succeeded", TRUE, Ev.ok)
  /\ Has(Ev, "obs") /\ Has(Ev, "obs_to") => Expect("state image of the clone", Ev.obs, Ev.obs_to)
  /\ cls' = Set(cls, Ev.to, cls[Ev.g]) /\ prev' = Set(prev, Ev.to, 0) /\ UNCHANGED <<snap, fresh>>

(* Clone::clone_from(g <- from): g joins the class of `from` *)
TrCloneFrom ==
  /\ IsEvent("clone_from") /\ NoPanic /\ Ev.g \in DOMAIN cls /\ Ev.from \in DOMAIN cls
  /\ Expect("clone_from succeeded", TRUE, Ev.ok)
  /\ Has(Ev, "obs") /\ Has(Ev, "obs_from") => Expect("state image after clone_from", Ev.obs_from, Ev.obs)
  /\ cls' = Set(cls, Ev.g, cls[Ev.from]) /\ prev' = Set(prev, Ev.g, 0) /\ UNCHANGED <<snap, fresh>>

TrSer ==
  /\ IsEvent("ser") /\ NoPanic /\ Ev.g \in DOMAIN cls
  \* the snapshot also exists as a serde_json::Value tree (what a generator inside a tagged enum or a flattened record
  \* goes through), and comes back from it unchanged
  /\ Has(Ev, "json_value_ok") => Expect("snapshot through a serde_json::Value tree and back", TRUE, Ev.json_value_ok)
  /\ snap' = Set(snap, Ev.g, IF Ev.supported THEN cls[Ev.g] ELSE 0) /\ UNCHANGED <<cls, prev, fresh>>
TrDe ==
  /\ IsEvent("de") /\ NoPanic /\ Ev.g \in DOMAIN snap
  /\ IF snap[Ev.g] = 0 THEN Has(Ev, "unsupported") /\ UNCHANGED <<cls, prev>>
     ELSE /\ IF Has(Ev, "ok") THEN Expect("deserialize succeeded", TRUE, Ev.ok)
             ELSE PrintT(<<"MISMATCH", l, "deserialize failed", Ev>>) /\ FALSE
          \* no operation was applied between ser and de (same class): the public read position
          \* (or, for the plain types, the whole state image) of the restored generator is the original's
          /\ (snap[Ev.g] = cls[Ev.g] /\ Has(Ev, "obs") /\ Has(Ev, "obs_to")) =>
                Expect("observation of the restored generator", Ev.obs, Ev.obs_to)
          /\ cls' = Set(cls, Ev.to, snap[Ev.g]) /\ prev' = Set(prev, Ev.to, 0)
  /\ UNCHANGED <<snap, fresh>>
(* deserialization of a literal (possibly perturbed) image: an unrelated new generator *)
TrDeImage ==
  /\ IsEvent("de_image") /\ NoPanic
  /\ IF Has(Ev, "ok") /\ Ev.ok THEN cls' = Set(cls, Ev.to, fresh) /\ prev' = Set(prev, Ev.to, 0) /\ fresh' = fresh + 1
     ELSE UNCHANGED <<cls, prev, fresh>>
  /\ UNCHANGED snap

TrEq ==
  /\ IsEvent("eq") /\ NoPanic /\ Ev.a \in DOMAIN cls /\ Ev.b \in DOMAIN cls
  /\ IF Has(Ev, "ret") /\ Ev.ret = TRUE
     THEN \* the code claims identical futures: merge b's class into a's; where the observation is the
          \* read position (buffered types) or the whole state (plain types, arrays) it must coincide
          /\ Has(Ev, "obs_a") /\ Has(Ev, "obs_b") => Expect("== returned true for different observations", Ev.obs_a, Ev.obs_b)
          /\ cls' = [g \in DOMAIN cls |-> IF cls[g] = cls[Ev.b] THEN cls[Ev.a] ELSE cls[g]]
          /\ prev' = [g \in DOMAIN prev |-> IF prev[g] = cls[Ev.b] THEN cls[Ev.a] ELSE prev[g]]
     ELSE /\ (Has(Ev, "ret") /\ Ev.ret = FALSE) => Expect("== of generators claimed equal (clone / restored / lock-stepped)", FALSE, cls[Ev.a] = cls[Ev.b])
          /\ UNCHANGED <<cls, prev>>
  /\ UNCHANGED <<snap, fresh>>
TrDrop == IsEvent("drop") /\ UNCHANGED <<cls, prev, snap, fresh>>

Init == l = 1 /\ cls = <<>> /\ prev = <<>> /\ snap = <<>> /\ fresh = 1
Next == \/ TrReset \/ Ctor("from_seed") \/ Ctor("seed_from_u64") \/ Passive("debug") \/ Passive("src")
        \/ (\E e \in OutputOps : TrOutput(e))
        \/ TrClone \/ TrCloneFrom \/ TrSer \/ TrDe \/ TrDeImage \/ TrEq \/ TrDrop
Spec == Init /\ [][Next]_vars
Accepted ==
  IF TLCGet("stats").diameter - 1 = Len(Rec) THEN TRUE
  ELSE PrintT(<<"UNMATCHED", TLCGet("stats").diameter, Len(Rec)>>) /\ FALSE
=============================================================================

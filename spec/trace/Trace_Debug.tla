---------------------------- MODULE Trace_Debug ----------------------------
(***************************************************************************)
(* C17: the Debug text of the state-hiding generators is a function of the *)
(* public read position only.                                              *)
(*                                                                         *)
(* The specification does not fix any text: DebugFn is an uninterpreted    *)
(* function, learned at first sight and then enforced, keyed by            *)
(*   (a) <<kind, format, operation history since construction>>            *)
(*       - the property's own quantifier: generators with different seeds  *)
(*       (or timers) and the same history print the same text; and         *)
(*   (b) for the buffered types <<kind, format, index, half_used>> as      *)
(*       computed by the API machine of module ApiImpl from the history -  *)
(*       "all seeds and states that share the same public read position";  *)
(*       XorShiftRng, the bare cores and JitterRng have no public read     *)
(*       position: <<kind, format>>, i.e. one text per type.               *)
(* Any seed- or state-dependent content (state words, buffered output      *)
(* words, the pool) makes two texts with one key differ, which rejects the *)
(* trace; the schedules run every history under several seeds.             *)
(***************************************************************************)
EXTENDS Integers, Sequences, SequencesExt, Json, IOUtils, TLC
Rec == ndJsonDeserialize(IOEnv.TRACE)
VARIABLES l, inst, fnH, fnP
vars == <<l, inst, fnH, fnP>>
Ev == Rec[l]
Has(r, f) == f \in DOMAIN r

AHc  == INSTANCE ApiImpl WITH Mode <- "blk32", Class <- "b32", BufLen <- 16,  Fills <- {}, MaxBlk <- 0, idx <- 0, half <- FALSE, blk <- 0, out <- <<>>
AIs  == INSTANCE ApiImpl WITH Mode <- "blk32", Class <- "b32", BufLen <- 256, Fills <- {}, MaxBlk <- 0, idx <- 0, half <- FALSE, blk <- 0, out <- <<>>
AI64 == INSTANCE ApiImpl WITH Mode <- "blk64", Class <- "b64", BufLen <- 256, Fills <- {}, MaxBlk <- 0, idx <- 0, half <- FALSE, blk <- 0, out <- <<>>
Buffered == {"Hc128Rng", "IsaacRng", "Isaac64Rng"}
Hidden == Buffered \cup {"XorShiftRng", "Hc128Core", "IsaacCore", "Isaac64Core", "JitterRng"}
InitSt(k) == CASE k = "Hc128Rng" -> AHc!InitState [] k = "IsaacRng" -> AIs!InitState [] k = "Isaac64Rng" -> AI64!InitState
               [] OTHER -> [idx |-> 0, half |-> FALSE, blk |-> 0]
Strip(r) == [idx |-> r.idx, half |-> r.half, blk |-> r.blk]
StepSt(k, s, e, n) ==
  CASE k = "Hc128Rng"   -> Strip(IF e = "next_u32" THEN AHc!StepU32(s) ELSE IF e = "next_u64" THEN AHc!StepU64(s) ELSE AHc!StepFill(s, n))
    [] k = "IsaacRng"   -> Strip(IF e = "next_u32" THEN AIs!StepU32(s) ELSE IF e = "next_u64" THEN AIs!StepU64(s) ELSE AIs!StepFill(s, n))
    [] k = "Isaac64Rng" -> Strip(IF e = "next_u32" THEN AI64!StepU32(s) ELSE IF e = "next_u64" THEN AI64!StepU64(s) ELSE AI64!StepFill(s, n))
    [] OTHER -> s

IsEvent(e) == l <= Len(Rec) /\ Ev.e = e /\ l' = l + 1
NoPanic == IF ~Has(Ev, "panic") THEN TRUE ELSE PrintT(<<"MISMATCH", l, "panic", Ev.panic>>) /\ FALSE
Set(f, k, v) == (k :> v) @@ f

TrReset == IsEvent("reset") /\ inst' = <<>> /\ UNCHANGED <<fnH, fnP>>       \* what was learned is kept across cases
Ctor(e) == /\ IsEvent(e) /\ NoPanic
           /\ LET k == IF e = "jit_new" THEN "JitterRng" ELSE Ev.kind IN
              inst' = Set(inst, Ev.g, [k |-> k, h |-> <<>>, s |-> InitSt(k)])
           /\ UNCHANGED <<fnH, fnP>>
TrClone == /\ IsEvent("clone") /\ NoPanic /\ Ev.g \in DOMAIN inst
           /\ inst' = Set(inst, Ev.to, [inst[Ev.g] EXCEPT !.h = Append(@, <<"clone", 0>>)]) /\ UNCHANGED <<fnH, fnP>>
Quiet(e) == IsEvent(e) /\ UNCHANGED <<inst, fnH, fnP>>
TrOp(e) ==
  /\ IsEvent(e) /\ NoPanic /\ Ev.g \in DOMAIN inst
  /\ LET n == IF Has(Ev, "n") THEN Ev.n ELSE 0
         I == inst[Ev.g]
     IN inst' = Set(inst, Ev.g, [I EXCEPT !.h = Append(@, <<e, n>>), !.s = StepSt(I.k, I.s, e, n)])
  /\ UNCHANGED <<fnH, fnP>>

(* learn the text for a key, or check it against what was learned: [ok, fn] *)
Learn(r, key, text) ==
  IF ~r.ok THEN r
  ELSE IF key \in DOMAIN r.fn
  THEN IF r.fn[key] = text THEN r
       ELSE [ok |-> ~PrintT(<<"MISMATCH", l, "Debug text differs for the same key", key, "learned", r.fn[key], "now", text>>), fn |-> r.fn]
  ELSE [ok |-> TRUE, fn |-> Set(r.fn, key, text)]
TrDebug ==
  /\ IsEvent("debug") /\ NoPanic /\ Ev.g \in DOMAIN inst
  /\ LET I == inst[Ev.g]
         h == Learn(Learn([ok |-> TRUE, fn |-> fnH], <<I.k, "plain", I.h>>, Ev.text), <<I.k, "alt", I.h>>, Ev.alt)
         p == IF I.k \in Buffered
              THEN Learn(Learn([ok |-> TRUE, fn |-> fnP], <<I.k, "plain", I.s.idx, I.s.half>>, Ev.text), <<I.k, "alt", I.s.idx, I.s.half>>, Ev.alt)
              \* XorShiftRng, the bare cores and JitterRng have no public read position: one text per type
              ELSE Learn(Learn([ok |-> TRUE, fn |-> fnP], <<I.k, "plain">>, Ev.text), <<I.k, "alt">>, Ev.alt)
     IN /\ I.k \in Hidden
        /\ h.ok /\ p.ok
        /\ fnH' = h.fn /\ fnP' = p.fn
  /\ UNCHANGED inst

Init == l = 1 /\ inst = <<>> /\ fnH = <<>> /\ fnP = <<>>
Next == \/ TrReset \/ Ctor("from_seed") \/ Ctor("seed_from_u64") \/ Ctor("jit_new") \/ TrClone
        \/ Quiet("timer") \/ Quiet("set_rounds") \/ Quiet("drop")
        \/ TrOp("next_u32") \/ TrOp("next_u64") \/ TrOp("fill_bytes") \/ TrOp("generate") \/ TrOp("timer_stats") \/ TrOp("test_timer")
        \/ TrDebug
Spec == Init /\ [][Next]_vars
Accepted ==
  IF TLCGet("stats").diameter - 1 = Len(Rec) THEN TRUE
  ELSE PrintT(<<"UNMATCHED", TLCGet("stats").diameter, Len(Rec)>>) /\ FALSE
=============================================================================

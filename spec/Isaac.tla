-------------------------------- MODULE Isaac --------------------------------
(***************************************************************************)
(* Layer 1 reference: Bob Jenkins' ISAAC (rand.c, 32-bit) and ISAAC-64     *)
(* (isaac64.c), in the shape of the reference: mix(), randinit(flag),      *)
(* isaac() with ind(mm,x), results r[0..255] produced in increasing order  *)
(* and consumed from the end (rand() returns randrsl[--randcnt]).          *)
(* WB = 32 or 64 selects the variant.  Arrays are sequences; mm[i] of the  *)
(* C code is mm[i+1] here.                                                 *)
(***************************************************************************)
EXTENDS Words

NL(WB) == WB \div 16
Golden(WB) == IF WB = 32 THEN <<\h79b9, \h9e37>> ELSE <<\h7c13, \h7f4a, \h79b9, \h9e37>>

(* mix on an 8-tuple s = <<a,b,c,d,e,f,g,h>>, statement by statement *)
Mix32(s) ==
  LET a1 == XorW(s[1], ShlW(s[2], 11))  d1 == AddW(s[4], a1)   b1 == AddW(s[2], s[3])
      b2 == XorW(b1, ShrW(s[3], 2))     e1 == AddW(s[5], b2)   c1 == AddW(s[3], d1)
      c2 == XorW(c1, ShlW(d1, 8))       f1 == AddW(s[6], c2)   d2 == AddW(d1, e1)
      d3 == XorW(d2, ShrW(e1, 16))      g1 == AddW(s[7], d3)   e2 == AddW(e1, f1)
      e3 == XorW(e2, ShlW(f1, 10))      h1 == AddW(s[8], e3)   f2 == AddW(f1, g1)
      f3 == XorW(f2, ShrW(g1, 4))       a2 == AddW(a1, f3)     g2 == AddW(g1, h1)
      g3 == XorW(g2, ShlW(h1, 8))       b3 == AddW(b2, g3)     h2 == AddW(h1, a2)
      h3 == XorW(h2, ShrW(a2, 9))       c3 == AddW(c2, h3)     a3 == AddW(a2, b3)
  IN <<a3, b3, c3, d3, e3, f3, g3, h3>>
Mix64(s) ==
  LET a1 == SubW(s[1], s[5])  f1 == XorW(s[6], ShrW(s[8], 9))   h1 == AddW(s[8], a1)
      b1 == SubW(s[2], f1)    g1 == XorW(s[7], ShlW(a1, 9))     a2 == AddW(a1, b1)
      c1 == SubW(s[3], g1)    h2 == XorW(h1, ShrW(b1, 23))      b2 == AddW(b1, c1)
      d1 == SubW(s[4], h2)    a3 == XorW(a2, ShlW(c1, 15))      c2 == AddW(c1, d1)
      e1 == SubW(s[5], a3)    b3 == XorW(b2, ShrW(d1, 14))      d2 == AddW(d1, e1)
      f2 == SubW(f1, b3)      c3 == XorW(c2, ShlW(e1, 20))      e2 == AddW(e1, f2)
      g2 == SubW(g1, c3)      d3 == XorW(d2, ShrW(f2, 17))      f3 == AddW(f2, g2)
      h3 == SubW(h2, d3)      e3 == XorW(e2, ShlW(g2, 14))      g3 == AddW(g2, h3)
  IN <<a3, b3, c3, d3, e3, f3, g3, h3>>
Mix(WB, s) == IF WB = 32 THEN Mix32(s) ELSE Mix64(s)

(* a..h after "for (i=0; i<4; ++i) mix(a,b,c,d,e,f,g,h)" from the golden ratio *)
PreMixed(WB) == LET g == Golden(WB)  s0 == <<g, g, g, g, g, g, g, g>>
                IN Mix(WB, Mix(WB, Mix(WB, Mix(WB, s0))))

(* one pass of randinit over 256 words src (added in groups of eight), writing mm *)
InitPass(WB, s0, src) ==
  FoldLeft(LAMBDA acc, k :         \* acc = <<s, mm>>; k = 0..31
             LET base == 8 * k
                 t == TLCEval([i \in 1..8 |-> AddW(acc[1][i], src[base + i])])
                 m == Mix(WB, t)
             IN <<m, acc[2] \o m>>,
           <<s0, <<>>>>, TLCEval([k \in 1..32 |-> k - 1]))

(* randinit: `passes` = 2 is randinit(TRUE) on randrsl = seed words; passes = 1 is the     *)
(* first pass only (with an all-zero seed this is randinit(FALSE), the unseeded reference) *)
IsaacMem(WB, seedwords, passes) ==
  LET p1 == InitPass(WB, PreMixed(WB), seedwords)
  IN IF passes = 1 THEN p1[2] ELSE InitPass(WB, p1[1], p1[2])[2]

(* isaac(): one block.  state [mm, aa, bb, cc]; returns <<state', r>> with r[i+1] = randrsl[i] *)
Ind(WB, mm, x, sh) == mm[(ToNat(<<ShrW(x, sh)[1]>>) % 256) + 1]
IsaacBlock(WB, st) ==
  LET cc == AddW(st.cc, FromNat(1, NL(WB)))
      bb0 == AddW(st.bb, cc)
      shx == IF WB = 32 THEN 2 ELSE 3
      shy == IF WB = 32 THEN 10 ELSE 11
      step(acc, i) ==       \* acc = [mm, aa, bb, r]; i = 0..255
        LET x == acc.mm[i + 1]
            a1 == IF WB = 32
                  THEN CASE i % 4 = 0 -> XorW(acc.aa, ShlW(acc.aa, 13)) [] i % 4 = 1 -> XorW(acc.aa, ShrW(acc.aa, 6))
                         [] i % 4 = 2 -> XorW(acc.aa, ShlW(acc.aa, 2))  [] i % 4 = 3 -> XorW(acc.aa, ShrW(acc.aa, 16))
                  ELSE CASE i % 4 = 0 -> NotW(XorW(acc.aa, ShlW(acc.aa, 21))) [] i % 4 = 1 -> XorW(acc.aa, ShrW(acc.aa, 5))
                         [] i % 4 = 2 -> XorW(acc.aa, ShlW(acc.aa, 12))       [] i % 4 = 3 -> XorW(acc.aa, ShrW(acc.aa, 33))
            aa == AddW(acc.mm[((i + 128) % 256) + 1], a1)
            y == AddW(AddW(Ind(WB, acc.mm, x, shx), aa), acc.bb)
            mm2 == [acc.mm EXCEPT ![i + 1] = y]
            bb == AddW(Ind(WB, mm2, y, shy), x)
        IN [mm |-> mm2, aa |-> aa, bb |-> bb, r |-> Append(acc.r, bb)]
      fin == FoldLeft(step, [mm |-> st.mm, aa |-> st.aa, bb |-> bb0, r |-> <<>>], TLCEval([k \in 1..256 |-> k - 1]))
  IN << [mm |-> fin.mm, aa |-> fin.aa, bb |-> fin.bb, cc |-> cc], fin.r >>

(* the generator as a word stream: rand() returns randrsl[--randcnt], refilling at 0 *)
IsaacStart(WB, seedwords, passes) ==
  LET z == Zero(NL(WB))
      b == IsaacBlock(WB, [mm |-> IsaacMem(WB, seedwords, passes), aa |-> z, bb |-> z, cc |-> z])
  IN [core |-> b[1], r |-> b[2], cnt |-> 256]            \* randinit ends with isaac(); randcnt = RANDSIZ
IsaacNext(WB, g) ==     \* <<g', word>>
  IF g.cnt = 0 THEN LET b == IsaacBlock(WB, g.core) IN << [core |-> b[1], r |-> b[2], cnt |-> 255], b[2][256] >>
  ELSE << [g EXCEPT !.cnt = g.cnt - 1], g.r[g.cnt] >>

(* seed words: the little-endian words of a 32-byte seed in the first slots, zero elsewhere *)
SeedWords(WB, seed) ==
  LET w == WordsOfBytes(seed, WB \div 8) IN w \o TLCEval([i \in 1..(256 - Len(w)) |-> Zero(NL(WB))])
(* seed_from_u64 key layout: x in the first key words (low word first for the 32-bit variant) *)
KeyWords(WB, x) ==
  LET w == IF WB = 32 THEN <<Lo32(x), Hi32(x)>> ELSE <<x>> IN w \o TLCEval([i \in 1..(256 - Len(w)) |-> Zero(NL(WB))])
=============================================================================

#!/usr/bin/env python3
"""prints the markdown table of independently seeded changes from seeded/*/meta.json"""
import json, glob, os
rows = []
for f in sorted(glob.glob(os.path.join(os.path.dirname(__file__), "..", "seeded", "*", "meta.json"))):
    m = json.load(open(f))
    rows.append((m["property"], os.path.basename(os.path.dirname(f)), m["change"], m["needs_to_manifest"], ", ".join(m["caught_by"]), " ".join(m.get("notes", []))))
print("| property | seeded/ | change | needs, to manifest | caught by | strengthening it prompted |")
print("|---|---|---|---|---|---|")
for r in rows:
    print("| " + " | ".join(x.replace("|", "\\|") for x in r) + " |")

import json, random
random.seed(1)
def limbs(x,n): return [(x>>(16*i))&0xffff for i in range(n)]
out=[]
for n in (2,4):
    w=16*n; M=(1<<w)-1
    specials=[0,1,M,M-1,1<<(w-1),(1<<(w-1))-1,0xffff,0x10000,0x9E3779B97F4A7C15&M,5,9]
    def rnd():
        r=random.random()
        if r<0.3: return random.choice(specials)
        if r<0.5: return random.getrandbits(w) & random.getrandbits(w)
        return random.getrandbits(w)
    for _ in range(300):
        a,b=rnd(),rnd(); k=random.randrange(0,w)
        for op,r in (("xor",a^b),("and",a&b),("or",a|b),("add",(a+b)&M),("sub",(a-b)&M),("mul",(a*b)&M)):
            out.append(dict(op=op,a=limbs(a,n),b=limbs(b,n),r=limbs(r,n)))
        out.append(dict(op="not",a=limbs(a,n),r=limbs(M^a,n)))
        out.append(dict(op="shl",a=limbs(a,n),k=k,r=limbs((a<<k)&M,n)))
        out.append(dict(op="shr",a=limbs(a,n),k=k,r=limbs(a>>k,n)))
        out.append(dict(op="rotl",a=limbs(a,n),k=k,r=limbs(((a<<k)|(a>>(w-k)))&M if k else a,n)))
        out.append(dict(op="rotr",a=limbs(a,n),k=k,r=limbs(((a>>k)|(a<<(w-k)))&M if k else a,n)))
        bs=list(a.to_bytes(w//8,'little'))
        out.append(dict(op="bytes",a=limbs(a,n),r=bs))
        out.append(dict(op="frombytes",a=bs,r=limbs(a,n)))
        out.append(dict(op="bitlen",a=limbs(a,n),r=[a.bit_length()]))
        out.append(dict(op="lt",a=limbs(a,n),b=limbs(b,n),r=[1 if a<b else 0]))
        if n==2:
            s=a if a<2**31 else a-2**32
            out.append(dict(op="sext",a=limbs(a,n),r=limbs(s&(2**64-1),4)))
import sys
with open(sys.argv[1] if len(sys.argv)>1 else "words_cases.ndjson","w") as f:
    for c in out: f.write(json.dumps(c)+"\n")
print(len(out))

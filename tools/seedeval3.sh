#!/bin/sh
# usage: tools/seedeval3.sh <worktree> <outdir>
# Confirms a triple of seeded changes (m1.diff m2.diff m3.diff + one shared demo): on the clean tree the demo passes; with
# each change alone the existing tests pass (demo files set aside) and the demo fails.
wt=$1; out=$2
cd "$wt" || exit 2
git checkout -q -- . 
sum() { grep -E "^test result" | awk '{s+=$4; f+=$6} END {print s" passed "f" failed"}'; }
echo "   clean tree, demo:              $(sh "$out/demo/run.sh" "$wt" 2>&1 | sum)"
for k in 1 2 3; do
  [ -f "$out/m$k.diff" ] || continue
  git checkout -q -- . ; git apply "$out/m$k.diff" || { echo "   m$k does not apply"; continue; }
  mkdir -p /tmp/mut/aside3-$$; git ls-files --others --exclude-standard | grep -v '^target' > /tmp/mut/aside3-$$.list
  while read f; do mkdir -p "/tmp/mut/aside3-$$/$(dirname "$f")"; mv "$f" "/tmp/mut/aside3-$$/$f"; done < /tmp/mut/aside3-$$.list
  a=$(cargo test --workspace --offline 2>&1 | sum)
  while read f; do mv "/tmp/mut/aside3-$$/$f" "$f"; done < /tmp/mut/aside3-$$.list
  b=$(sh "$out/demo/run.sh" "$wt" 2>&1 | sum)
  echo "   m$k: existing tests: $a; demo: $b"
done
git checkout -q -- .

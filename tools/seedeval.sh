#!/bin/sh
# usage: tools/seedeval.sh <mutant-name> <worktree> <outdir> <demo-test-command...>
# Confirms a seeded change in its scratch worktree: (a) existing tests pass with the change (demo set aside),
# (b) the demonstration fails with the change, (c) passes without it.  Prints a summary; exit 0 iff all three hold.
set -u
name=$1; wt=$2; out=$3
cd "$wt" || exit 2
echo "== $name: patch"; git diff --stat -- . ':!*/tests/*' | tail -3
# set demo files aside (untracked files)
mkdir -p /tmp/mut/aside-$name
git ls-files --others --exclude-standard | grep -v '^target' > /tmp/mut/aside-$name/list
while read f; do mkdir -p "/tmp/mut/aside-$name/$(dirname "$f")"; mv "$f" "/tmp/mut/aside-$name/$f"; done < /tmp/mut/aside-$name/list
a=$(cargo test --workspace --offline 2>&1 | grep -E "^test result" | awk '{s+=$4; f+=$6} END {print s" passed "f" failed"}')
echo "   existing tests with the change: $a"
while read f; do mv "/tmp/mut/aside-$name/$f" "$f"; done < /tmp/mut/aside-$name/list
b=$(sh "$out/demo/run.sh" 2>&1 | grep -E "^test result" | awk '{s+=$4; f+=$6} END {print s" passed "f" failed"}')
echo "   demo with the change:           $b"
git apply -R "$out/patch.diff" || { echo "cannot reverse patch"; exit 2; }
c=$(sh "$out/demo/run.sh" 2>&1 | grep -E "^test result" | awk '{s+=$4; f+=$6} END {print s" passed "f" failed"}')
echo "   demo without the change:        $c"
git apply "$out/patch.diff"

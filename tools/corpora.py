"""Schedule (input) generators.  Everything is a function of the seed given;
nothing here knows expected values."""
import random
from vlib import Sched, u32, u64

XO = {  # kind: (word bytes, words)
    "Xoroshiro64Star": (4, 2), "Xoroshiro64StarStar": (4, 2),
    "Xoroshiro128Plus": (8, 2), "Xoroshiro128PlusPlus": (8, 2), "Xoroshiro128StarStar": (8, 2),
    "Xoshiro128Plus": (4, 4), "Xoshiro128PlusPlus": (4, 4), "Xoshiro128StarStar": (4, 4),
    "Xoshiro256Plus": (8, 4), "Xoshiro256PlusPlus": (8, 4), "Xoshiro256StarStar": (8, 4),
    "Xoshiro512Plus": (8, 8), "Xoshiro512PlusPlus": (8, 8), "Xoshiro512StarStar": (8, 8),
}
XO_JUMP = [k for k in XO if not k.startswith("Xoroshiro64")]
SEEDLEN = {k: wb * n for k, (wb, n) in XO.items()}
SEEDLEN.update({"SplitMix64": 8, "XorShiftRng": 16, "Hc128Rng": 32, "IsaacRng": 32, "Isaac64Rng": 32,
                "Hc128Core": 32, "IsaacCore": 32, "Isaac64Core": 32})
WORDBYTES = {k: wb for k, (wb, n) in XO.items()}
WORDBYTES.update({"SplitMix64": 8, "XorShiftRng": 4, "Hc128Rng": 4, "IsaacRng": 4, "Isaac64Rng": 8, "JitterRng": 8})
ALL_SEEDABLE = list(XO) + ["SplitMix64", "XorShiftRng", "Hc128Rng", "IsaacRng", "Isaac64Rng"]
LINEAR = list(XO) + ["XorShiftRng"]


def native_op(kind):
    return "next_u32" if WORDBYTES[kind] == 4 else "next_u64"


def words_to_seed(words, wb):
    out = []
    for w in words:
        out += list(int(w).to_bytes(wb, "little"))
    return out


def unit_seed(kind, bit):
    n = SEEDLEN[kind]
    b = [0] * n
    b[bit // 8] = 1 << (bit % 8)
    return b


def structured_states(kind, rng):
    """state classes chosen for the output scramblers: carry chains of every
    length, multiplier wrap, high-bit-only, all-ones, alternating"""
    wb, n = (WORDBYTES[kind], SEEDLEN[kind] // WORDBYTES[kind])
    w = 8 * wb
    M = (1 << w) - 1
    out = []
    out.append([M] * n)
    out.append([0xAAAAAAAAAAAAAAAA & M] * n)
    out.append([0x5555555555555555 & M, 0xAAAAAAAAAAAAAAAA & M] * (n // 2))
    out.append([1 << (w - 1)] * n)
    for k in list(range(1, w + 1, max(1, w // 16))) + [w - 1, w]:
        # s0 = 2^k - 1 and every other word 1: a carry chain of length k in s0 + s_j
        out.append([(1 << k) - 1 & M] + [1] * (n - 1))
        out.append([1] * (n - 1) + [(1 << k) - 1 & M])
        st = [0] * n
        st[min(1, n - 1)] = (1 << k) - 1 & M     # the word the ** scrambler reads (s1; s0 for xoroshiro)
        st[0] |= 1
        out.append(st)
    for k in range(0, w, max(1, w // 8)):
        out.append([(0xFF << k) & M] * n)
        out.append([M ^ (1 << k)] + [M] * (n - 1))
    for _ in range(8):
        out.append([rng.getrandbits(w) | (1 << (w - 1)) for _ in range(n)])
    return [s for s in out if any(s)]


def c01_corpus(seed, tier):
    rng = random.Random(seed * 1000003 + 1)
    R, K = (12, 48) if tier == "quick" else (200, 600)
    S = Sched()
    for kind in XO:
        wb = WORDBYTES[kind]
        nb = 8 * SEEDLEN[kind]
        nat = native_op(kind)
        # (1) the complete basis: every unit-bit seed, stepped twice
        chunk = 64
        for lo in range(0, nb, chunk):
            ops = []
            for bit in range(lo, min(nb, lo + chunk)):
                ops.append({"op": "from_seed", "g": 1, "kind": kind, "seed": unit_seed(kind, bit)})
                ops.append({"op": nat, "g": 1, "n": 2})
            S.case("%s basis %d" % (kind, lo), ops)
        # (2) scrambler classes
        ops = []
        for st in structured_states(kind, rng):
            ops.append({"op": "from_seed", "g": 1, "kind": kind, "seed": words_to_seed(st, wb)})
            ops.append({"op": nat, "g": 1, "n": 3})
        S.case("%s structured" % kind, ops)
        # (3) random seeds x K consecutive native calls, in chunks so that the state image is seen often
        for r in range(R):
            sd = [rng.getrandbits(8) for _ in range(SEEDLEN[kind])]
            ops = [{"op": "from_seed", "g": 1, "kind": kind, "seed": sd}]
            left = K
            while left > 0:
                n = min(left, rng.choice([1, 2, 7, 16, 32]))
                ops.append({"op": nat, "g": 1, "n": n})
                left -= n
            S.case("%s random %d" % (kind, r), ops, weight=K)
        # (4) positions after a jump
        if kind in XO_JUMP and tier != "quick":
            for r in range(2):
                sd = [rng.getrandbits(8) for _ in range(SEEDLEN[kind])]
                ops = [{"op": "from_seed", "g": 1, "kind": kind, "seed": sd}, {"op": "jump", "g": 1},
                       {"op": nat, "g": 1, "n": 16}, {"op": "long_jump", "g": 1}, {"op": nat, "g": 1, "n": 16}]
                S.case("%s after jump %d" % (kind, r), ops, weight=400)
    # SplitMix64: counters around the 2^64 wrap, both finalizers
    PHI = 0x9E3779B97F4A7C15
    ops = []
    xs = [0, 1, (1 << 64) - 1, 1 << 63, 1477776061723855037, 10]
    xs += [((1 << 64) - k * PHI) & ((1 << 64) - 1) for k in range(1, 6)]
    xs += [1 << k for k in range(0, 64, 5)]
    xs += [rng.getrandbits(64) for _ in range(R)]
    for x in xs:
        for op in ("next_u64", "next_u32"):
            ops.append({"op": "from_seed", "g": 1, "kind": "SplitMix64", "seed": list(x.to_bytes(8, "little"))})
            ops.append({"op": op, "g": 1, "n": 6})
            ops.append({"op": "next_u32" if op == "next_u64" else "next_u64", "g": 1, "n": 3})
    S.case("SplitMix64 counters", ops)
    for r in range(max(2, R // 4)):
        x = rng.getrandbits(64)
        ops = [{"op": "from_seed", "g": 1, "kind": "SplitMix64", "seed": list(x.to_bytes(8, "little"))}]
        for _ in range(K // 8):
            ops.append({"op": rng.choice(["next_u64", "next_u32"]), "g": 1, "n": rng.choice([1, 3, 8])})
        S.case("SplitMix64 random %d" % r, ops, weight=K)
    return S


def c04_corpus(seed, tier):
    rng = random.Random(seed * 1000003 + 4)
    R, K = (16, 64) if tier == "quick" else (300, 1000)
    S = Sched()
    kind = "XorShiftRng"
    for lo in range(0, 128, 64):
        ops = []
        for bit in range(lo, lo + 64):
            ops.append({"op": "from_seed", "g": 1, "kind": kind, "seed": unit_seed(kind, bit)})
            ops.append({"op": "next_u32", "g": 1, "n": 5})
        S.case("XorShiftRng basis %d" % lo, ops)
    ops = []
    for st in structured_states(kind, rng):
        ops.append({"op": "from_seed", "g": 1, "kind": kind, "seed": words_to_seed(st, 4)})
        ops.append({"op": "next_u32", "g": 1, "n": 6})
    S.case("XorShiftRng structured", ops)
    for r in range(R):
        sd = [rng.getrandbits(8) for _ in range(16)]
        ops = [{"op": "from_seed", "g": 1, "kind": kind, "seed": sd}]
        left = K
        while left > 0:
            n = min(left, rng.choice([1, 2, 7, 16, 32]))
            ops.append({"op": "next_u32", "g": 1, "n": n})
            left -= n
        S.case("XorShiftRng random %d" % r, ops, weight=K)
    return S


# ---------------------------------------------------------------- C05
CLASS_KINDS = {
    "Via_w32": ["Xoroshiro64Star", "Xoroshiro64StarStar", "Xoshiro128Plus", "Xoshiro128PlusPlus", "Xoshiro128StarStar", "XorShiftRng"],
    "Via_hi": ["Xoroshiro128Plus", "Xoshiro256Plus", "Xoshiro256PlusPlus", "Xoshiro256StarStar", "Xoshiro512Plus", "Xoshiro512PlusPlus", "Xoshiro512StarStar"],
    "Via_lo": ["Xoroshiro128PlusPlus", "Xoroshiro128StarStar"],
    "Via_sm": ["SplitMix64"],
    "Via_half": ["JitterRng"],
    "Hc128": ["Hc128Rng"],
    "Isaac": ["IsaacRng"],
    "Isaac64": ["Isaac64Rng"],
}


def words_needed(ops, wb):
    """upper bound on native words consumed by a list of (op, n) — no semantics, just a bound"""
    t = 2
    for op, n in ops:
        if op == "next_u32":
            t += 1
        elif op == "next_u64":
            t += 2
        else:
            t += (n + wb - 1) // wb + 1
    return t


def timer_script(rng, n, style="jittery"):
    """n u64 readings of a plausible (non-stuck) timer"""
    t = rng.getrandbits(40) + 1
    out = []
    for _ in range(n):
        if style == "jittery":
            t += rng.choice([37, 41, 43, 53, 59, 61, 67, 71, 73, 79, 83, 89, 97, 101, 211, 307, 1009]) + rng.randrange(0, 900)
        out.append(t & ((1 << 64) - 1))
    return out


def api_case_ops(kind, walk, rng, with_twin=True, rounds=None):
    """ops of one case: twin (native calls only), then the instance under test driven by `walk`"""
    wb = WORDBYTES[kind]
    N = words_needed(walk, wb)
    ops = []
    nat = native_op(kind)
    if kind == "JitterRng":
        r = rounds or rng.choice([1, 2, 3])
        reads = (1 + 3 * (1 + r) + 30) * N + 50
        sc = timer_script(rng, reads)
        ops.append({"op": "timer", "t": 1, "readings": [u64(x) for x in sc], "cont": [u64(97), u64(1013), u64(331), u64(1999), u64(53)]})
        ops.append({"op": "jit_new", "g": 2, "t": 1})
        ops.append({"op": "set_rounds", "g": 2, "r": r})
        ops.append({"op": "next_u64", "g": 2, "n": N, "role": "twin", "of": 1})
        ops.append({"op": "jit_new", "g": 1, "t": 1})
        ops.append({"op": "set_rounds", "g": 1, "r": r})
    else:
        sd = [rng.getrandbits(8) for _ in range(SEEDLEN[kind])]
        ops.append({"op": "from_seed", "g": 2, "kind": kind, "seed": sd})
        ops.append({"op": nat, "g": 2, "n": N, "role": "twin", "of": 1})
        if kind == "SplitMix64":
            ops.append({"op": "from_seed", "g": 3, "kind": kind, "seed": sd})
            ops.append({"op": "next_u32", "g": 3, "n": N, "role": "twin32", "of": 1})
        ops.append({"op": "from_seed", "g": 1, "kind": kind, "seed": sd})
    for op, n in walk:
        if op == "fill_bytes":
            ops.append({"op": op, "g": 1, "n": n})
        else:
            ops.append({"op": op, "g": 1})
    return ops


def random_walk(rng, length, wb, blockbytes=None):
    walk = []
    for _ in range(length):
        r = rng.random()
        if r < 0.3:
            walk.append(("next_u32", 0))
        elif r < 0.55:
            walk.append(("next_u64", 0))
        else:
            q = rng.random()
            if q < 0.7:
                n = rng.randrange(0, 26)
            elif q < 0.9 or not blockbytes:
                n = rng.randrange(26, 200)
            else:
                n = blockbytes + rng.randrange(-9, 10)
            walk.append(("fill_bytes", n))
    return walk

"""Schedule (input) generators.  Everything is a function of the seed given;
nothing here knows expected values."""
import random
from vlib import Sched, u32, u64

XO = {  # kind: (word bytes, words)
    "Xoroshiro64Star": (4, 2), "Xoroshiro64StarStar": (4, 2),
    "Xoroshiro128Plus": (8, 2), "Xoroshiro128PlusPlus": (8, 2), "Xoroshiro128StarStar": (8, 2),
    "Xoshiro128Plus": (4, 4), "Xoshiro128PlusPlus": (4, 4), "Xoshiro128StarStar": (4, 4),
    "Xoshiro256Plus": (8, 4), "Xoshiro256PlusPlus": (8, 4), "Xoshiro256StarStar": (8, 4),
    "Xoshiro512Plus": (8, 8), "Xoshiro512PlusPlus": (8, 8), "Xoshiro512StarStar": (8, 8),
}
XO_JUMP = [k for k in XO if not k.startswith("Xoroshiro64")]
SEEDLEN = {k: wb * n for k, (wb, n) in XO.items()}
SEEDLEN.update({"SplitMix64": 8, "XorShiftRng": 16, "Hc128Rng": 32, "IsaacRng": 32, "Isaac64Rng": 32,
                "Hc128Core": 32, "IsaacCore": 32, "Isaac64Core": 32})
WORDBYTES = {k: wb for k, (wb, n) in XO.items()}
WORDBYTES.update({"SplitMix64": 8, "XorShiftRng": 4, "Hc128Rng": 4, "IsaacRng": 4, "Isaac64Rng": 8, "JitterRng": 8})
ALL_SEEDABLE = list(XO) + ["SplitMix64", "XorShiftRng", "Hc128Rng", "IsaacRng", "Isaac64Rng"]
LINEAR = list(XO) + ["XorShiftRng"]


def native_op(kind):
    return "next_u32" if WORDBYTES[kind] == 4 else "next_u64"


def words_to_seed(words, wb):
    out = []
    for w in words:
        out += list(int(w).to_bytes(wb, "little"))
    return out


def unit_seed(kind, bit):
    n = SEEDLEN[kind]
    b = [0] * n
    b[bit // 8] = 1 << (bit % 8)
    return b


def structured_states(kind, rng):
    """state classes chosen for the output scramblers: carry chains of every
    length, multiplier wrap, high-bit-only, all-ones, alternating"""
    wb, n = (WORDBYTES[kind], SEEDLEN[kind] // WORDBYTES[kind])
    w = 8 * wb
    M = (1 << w) - 1
    out = []
    out.append([M] * n)
    out.append([0xAAAAAAAAAAAAAAAA & M] * n)
    out.append([0x5555555555555555 & M, 0xAAAAAAAAAAAAAAAA & M] * (n // 2))
    out.append([1 << (w - 1)] * n)
    for k in range(1, w + 1):
        # s0 = 2^k - 1 and every other word 1: a carry chain of length k in s0 + s_j
        out.append([(1 << k) - 1 & M] + [1] * (n - 1))
        out.append([1] * (n - 1) + [(1 << k) - 1 & M])
        st = [0] * n
        st[min(1, n - 1)] = (1 << k) - 1 & M     # the word the ** scrambler reads (s1; s0 for xoroshiro)
        st[0] |= 1
        out.append(st)
    for k in range(0, w, max(1, w // 8)):
        out.append([(0xFF << k) & M] * n)
        out.append([M ^ (1 << k)] + [M] * (n - 1))
    # multiplier / shift boundaries of the * and ** scramblers in the word they read (s1, or s0 for the
    # xoroshiro types): x*5, x*9, x*0x9E3779BB overflow at 2^k/m; values just below, at and above them
    rd = min(1, n - 1)
    for k in range(3, w + 1):
        for m in (5, 9, 45, 5760, 0x9E3779BB):
            b = (1 << k) // m
            for v in (b - 1, b, b + 1):
                if 0 < v <= M:
                    st = [1] * n
                    st[rd] = v
                    out.append(st)
                    if rd != 0:
                        st2 = [1] * n
                        st2[0] = v
                        out.append(st2)
        for v in ((1 << k) & M, ((1 << k) + 1) & M):
            if v:
                st = [1] * n
                st[rd] = v
                out.append(st)
    for _ in range(8):
        out.append([rng.getrandbits(w) | (1 << (w - 1)) for _ in range(n)])
    return [s for s in out if any(s)]


def c01_corpus(seed, tier):
    rng = random.Random(seed * 1000003 + 1)
    R, K = (16, 96) if tier == "quick" else (300, 800)
    S = Sched()
    for kind in XO:
        wb = WORDBYTES[kind]
        nb = 8 * SEEDLEN[kind]
        nat = native_op(kind)
        # (1) the complete basis: every unit-bit seed, stepped twice
        chunk = 64
        for lo in range(0, nb, chunk):
            ops = []
            for bit in range(lo, min(nb, lo + chunk)):
                ops.append({"op": "from_seed", "g": 1, "kind": kind, "seed": unit_seed(kind, bit)})
                ops.append({"op": nat, "g": 1, "n": 2})
            S.case("%s basis %d" % (kind, lo), ops)
        # (2) scrambler classes
        sts = structured_states(kind, rng)
        for lo in range(0, len(sts), 120):
            ops = []
            for st in sts[lo:lo + 120]:
                ops.append({"op": "from_seed", "g": 1, "kind": kind, "seed": words_to_seed(st, wb)})
                ops.append({"op": nat, "g": 1, "n": 2})
            S.case("%s structured %d" % (kind, lo), ops)
        # (3) random seeds x K consecutive native calls, in chunks so that the state image is seen often
        for r in range(R):
            sd = [rng.getrandbits(8) for _ in range(SEEDLEN[kind])]
            ops = [{"op": "from_seed", "g": 1, "kind": kind, "seed": sd}]
            left = K
            while left > 0:
                n = min(left, rng.choice([1, 2, 7, 16, 32]))
                ops.append({"op": nat, "g": 1, "n": n})
                left -= n
            S.case("%s random %d" % (kind, r), ops, weight=K)
        # (4) positions after a jump
        if kind in XO_JUMP and tier != "quick":
            for r in range(2):
                sd = [rng.getrandbits(8) for _ in range(SEEDLEN[kind])]
                ops = [{"op": "from_seed", "g": 1, "kind": kind, "seed": sd}, {"op": "jump", "g": 1},
                       {"op": nat, "g": 1, "n": 16}, {"op": "long_jump", "g": 1}, {"op": nat, "g": 1, "n": 16}]
                S.case("%s after jump %d" % (kind, r), ops, weight=400)
    # SplitMix64: counters around the 2^64 wrap, both finalizers
    PHI = 0x9E3779B97F4A7C15
    ops = []
    xs = [0, 1, (1 << 64) - 1, 1 << 63, 1477776061723855037, 10]
    xs += [((1 << 64) - k * PHI) & ((1 << 64) - 1) for k in range(1, 6)]
    xs += [1 << k for k in range(0, 64, 5)]
    xs += [rng.getrandbits(64) for _ in range(R)]
    for x in xs:
        for op in ("next_u64", "next_u32"):
            ops.append({"op": "from_seed", "g": 1, "kind": "SplitMix64", "seed": list(x.to_bytes(8, "little"))})
            ops.append({"op": op, "g": 1, "n": 6})
            ops.append({"op": "next_u32" if op == "next_u64" else "next_u64", "g": 1, "n": 3})
    S.case("SplitMix64 counters", ops)
    for r in range(max(2, R // 4)):
        x = rng.getrandbits(64)
        ops = [{"op": "from_seed", "g": 1, "kind": "SplitMix64", "seed": list(x.to_bytes(8, "little"))}]
        for _ in range(K // 8):
            ops.append({"op": rng.choice(["next_u64", "next_u32"]), "g": 1, "n": rng.choice([1, 3, 8])})
        S.case("SplitMix64 random %d" % r, ops, weight=K)
    return S


def c04_corpus(seed, tier):
    rng = random.Random(seed * 1000003 + 4)
    R, K = (16, 64) if tier == "quick" else (1500, 1000)
    S = Sched()
    kind = "XorShiftRng"
    for lo in range(0, 128, 64):
        ops = []
        for bit in range(lo, lo + 64):
            ops.append({"op": "from_seed", "g": 1, "kind": kind, "seed": unit_seed(kind, bit)})
            ops.append({"op": "next_u32", "g": 1, "n": 5})
        S.case("XorShiftRng basis %d" % lo, ops)
    ops = []
    for st in structured_states(kind, rng):
        ops.append({"op": "from_seed", "g": 1, "kind": kind, "seed": words_to_seed(st, 4)})
        ops.append({"op": "next_u32", "g": 1, "n": 6})
    S.case("XorShiftRng structured", ops)
    for r in range(R):
        sd = [rng.getrandbits(8) for _ in range(16)]
        ops = [{"op": "from_seed", "g": 1, "kind": kind, "seed": sd}]
        left = K
        while left > 0:
            n = min(left, rng.choice([1, 2, 7, 16, 32]))
            ops.append({"op": "next_u32", "g": 1, "n": n})
            left -= n
        S.case("XorShiftRng random %d" % r, ops, weight=K)
    for r in range(2):          # runs past 256, 512, 1024 ... outputs of one generator (narrow internal counters)
        sd = [rng.getrandbits(8) for _ in range(16)]
        ops = [{"op": "from_seed", "g": 1, "kind": kind, "seed": sd}] + [{"op": "next_u32", "g": 1, "n": 75} for _ in range(16 if tier == "quick" else 60)]
        S.case("XorShiftRng long run %d" % r, ops, weight=1300)
    return S


# ---------------------------------------------------------------- C05
CLASS_KINDS = {
    "Via_w32": ["Xoroshiro64Star", "Xoroshiro64StarStar", "Xoshiro128Plus", "Xoshiro128PlusPlus", "Xoshiro128StarStar", "XorShiftRng"],
    "Via_hi": ["Xoroshiro128Plus", "Xoshiro256Plus", "Xoshiro256PlusPlus", "Xoshiro256StarStar", "Xoshiro512Plus", "Xoshiro512PlusPlus", "Xoshiro512StarStar"],
    "Via_lo": ["Xoroshiro128PlusPlus", "Xoroshiro128StarStar"],
    "Via_sm": ["SplitMix64"],
    "Via_half": ["JitterRng"],
    "Hc128": ["Hc128Rng"],
    "Isaac": ["IsaacRng"],
    "Isaac64": ["Isaac64Rng"],
}


def words_needed(ops, wb):
    """upper bound on native words consumed by a list of (op, n) — no semantics, just a bound"""
    t = 2
    for op, n in ops:
        if op == "next_u32":
            t += 1
        elif op == "next_u64":
            t += 2
        else:
            t += (n + wb - 1) // wb + 1
    return t


def timer_script(rng, n, style="jittery"):
    """n u64 readings of a plausible (non-stuck) timer"""
    t = rng.getrandbits(40) + 1
    out = []
    for _ in range(n):
        if style == "jittery":
            t += rng.choice([37, 41, 43, 53, 59, 61, 67, 71, 73, 79, 83, 89, 97, 101, 211, 307, 1009]) + rng.randrange(0, 900)
        out.append(t & ((1 << 64) - 1))
    return out


def api_case_ops(kind, walk, rng, with_twin=True, rounds=None, seed=None):
    """ops of one case: twin (native calls only), then the instance under test driven by `walk`"""
    wb = WORDBYTES[kind]
    N = words_needed(walk, wb)
    ops = []
    nat = native_op(kind)
    if kind == "JitterRng":
        r = rounds or rng.choice([1, 2, 3])
        reads = (1 + 3 * (1 + r) + 30) * N + 50
        sc = timer_script(rng, reads)
        ops.append({"op": "timer", "t": 1, "readings": [u64(x) for x in sc], "cont": [u64(97), u64(1013), u64(331), u64(1999), u64(53)]})
        ops.append({"op": "jit_new", "g": 2, "t": 1})
        ops.append({"op": "set_rounds", "g": 2, "r": r})
        ops.append({"op": "next_u64", "g": 2, "n": N, "role": "twin", "of": 1})
        ops.append({"op": "jit_new", "g": 1, "t": 1})
        ops.append({"op": "set_rounds", "g": 1, "r": r})
    else:
        sd = seed if seed is not None else [rng.getrandbits(8) for _ in range(SEEDLEN[kind])]
        ops.append({"op": "from_seed", "g": 2, "kind": kind, "seed": sd})
        ops.append({"op": nat, "g": 2, "n": N, "role": "twin", "of": 1})
        if kind == "SplitMix64":
            ops.append({"op": "from_seed", "g": 3, "kind": kind, "seed": sd})
            ops.append({"op": "next_u32", "g": 3, "n": N, "role": "twin32", "of": 1})
        ops.append({"op": "from_seed", "g": 1, "kind": kind, "seed": sd})
    for op, n in walk:
        if op == "fill_bytes":
            # the destination slice starts at varying offsets from an 8-byte boundary
            ops.append({"op": op, "g": 1, "n": n, "off": rng.choice([0, 0, 1, 2, 3, 4, 5, 6, 7])})
        elif op == "set_rounds":
            # JitterRng only: the round count it already has (the twin collected every word with it), set again
            ops.append({"op": op, "g": 1, "r": r})
        else:
            ops.append({"op": op, "g": 1})
    return ops


def random_walk(rng, length, wb, blockbytes=None):
    walk = []
    for _ in range(length):
        r = rng.random()
        if r < 0.3:
            walk.append(("next_u32", 0))
        elif r < 0.55:
            walk.append(("next_u64", 0))
        else:
            q = rng.random()
            if q < 0.7:
                n = rng.randrange(0, 26)
            elif q < 0.9 or not blockbytes:
                n = rng.randrange(26, 200)
            else:
                n = blockbytes + rng.randrange(-9, 10)
            walk.append(("fill_bytes", n))
    return walk


# ---------------------------------------------------------------- jitter (C12, C14, C16)
M64 = (1 << 64) - 1


def seg_readings(rng, t, kind, length):
    """reading-level delta patterns; time-stamp deltas are sums of three consecutive reading deltas,
    so constant / linear / zero reading deltas give stuck first / second / zeroth differences"""
    out = []
    if kind == "random":
        for _ in range(length):
            t = (t + rng.choice([37, 41, 43, 53, 59, 61, 67, 71, 73, 79, 83, 89, 97, 101, 211, 307, 1009]) + rng.randrange(0, 900)) & M64
            out.append(t)
    elif kind == "const":
        c = rng.choice([1, 7, 100, 1000, 12345])
        for _ in range(length):
            t = (t + c) & M64
            out.append(t)
    elif kind == "linear":
        c, s = rng.choice([1, 50, 999]), rng.choice([1, 3, 10])
        for i in range(length):
            t = (t + c + s * i) & M64
            out.append(t)
    elif kind == "zero":
        out = [t] * length
    elif kind == "backwards":
        for _ in range(length):
            t = (t - rng.randrange(1, 5000)) & M64
            out.append(t)
    elif kind == "wild":
        for _ in range(length):
            t = rng.getrandbits(64)
            out.append(t)
    elif kind == "big":           # deltas near 2^31 / 2^32 in magnitude but never overflowing an i32 difference of deltas
        for _ in range(length):
            t = (t + rng.choice([(1 << 30) - 1, (1 << 30) + 3, (1 << 32) + 17, (1 << 33) + 5, (1 << 29) + rng.randrange(1000)])) & M64
            out.append(t)
    elif kind == "hundreds":
        for _ in range(length):
            t = (t + 100 * rng.randrange(1, 40)) & M64
            out.append(t)
    return out, t


def jitter_script(rng, segs):
    t = rng.getrandbits(44) + 1
    out = []
    for kind, length in segs:
        r, t = seg_readings(rng, t, kind, length)
        out += r
    return out


CONT = [u64(97), u64(1013), u64(331), u64(1999), u64(53), u64(7), u64(4001)]


def jitter_case(rng, tier, style):
    """ops of one JitterRng case: a scripted timer and a random operation history"""
    rounds = rng.choice([1, 1, 2, 2, 3, 5] + ([64] if rng.random() < 0.3 else []) + ([255] if tier != "quick" and rng.random() < 0.1 else []))
    nops = rng.randrange(4, 10)
    segs = []
    total = 0
    need = nops * (4 + 3 * (rounds + 1)) * 2 + 50
    while total < need:
        kind = rng.choice(style)
        ln = rng.randrange(3, 14) if kind != "random" else rng.randrange(10, 60)
        segs.append((kind, ln))
        total += ln
        if kind != "random":
            segs.append(("random", rng.randrange(6, 20)))
            total += segs[-1][1]
    sc = jitter_script(rng, segs)
    ops = [{"op": "timer", "t": 1, "readings": [u64(x) for x in sc], "cont": CONT},
           {"op": "jit_new", "g": 1, "t": 1}]
    if rounds != 64 or rng.random() < 0.5:
        ops.append({"op": "set_rounds", "g": 1, "r": rounds})
    live = [1]
    nextg = 2
    for _ in range(nops):
        g = rng.choice(live)
        r = rng.random()
        if r < 0.25:
            ops.append({"op": "next_u64", "g": g})
        elif r < 0.5:
            ops.append({"op": "next_u32", "g": g})
            if rng.random() < 0.6:
                ops.append({"op": "next_u32", "g": g})
        elif r < 0.7:
            ops.append({"op": "fill_bytes", "g": g, "n": rng.choice([0, 1, 2, 3, 4, 5, 7, 8, 9, 12, 13, 16, 17, 23, 24])})
        elif r < 0.82:
            ops.append({"op": "timer_stats", "g": g, "var": rng.random() < 0.5})
        elif r < 0.9:
            ops.append({"op": "set_rounds", "g": g, "r": rng.choice([1, 2, 3, 4])})
        elif len(live) < 3:
            ops.append({"op": "clone", "g": g, "to": nextg})
            live.append(nextg)
            nextg += 1
        else:
            ops.append({"op": "debug", "g": g})
    return ops


def stuck_run_cases(S, rng, ns, rounds):
    for n_stuck in ns:
        for style in (("stand",) if n_stuck > 5000 else ("stand", "equal")):
            t = rng.getrandbits(40) + (1 << 34)
            rd = [t]
            for D in (17, 29, 41):
                t += D
                rd += [t - 1, t, t + 1]
            for k in range(n_stuck):
                t += 0 if style == "stand" else 1001
                rd += [t, t, t]
            for k in range(rounds + 14):
                t += 59 + 14 * k + (k * k) % 11
                rd += [t - 1, t, t + 1]
            S.case("jitter %d stuck measurements in a row (%s), rounds %d" % (n_stuck, style, rounds),
                   [{"op": "timer", "t": 1, "readings": [u64(x) for x in rd], "cont": CONT}, {"op": "jit_new", "g": 1, "t": 1},
                    {"op": "set_rounds", "g": 1, "r": rounds}, {"op": "next_u64", "g": 1}, {"op": "next_u32", "g": 1}], weight=20 + n_stuck // 3 + rounds)


def timer_fault_cases(S, rng):
    """the timer closure FAILS (panics) in the middle of a collection and the caller recovers (catch_unwind): the unwound
    output call had started a fresh collection, so no half is owed afterwards (Trace_Jitter: TrFault)"""
    for rounds in (1, 3):
        for after in (0, 1, 2, 5, 9):
            for first, call in ((["next_u32"], {"op": "next_u64"}), (["next_u32"], {"op": "fill_bytes", "n": 8}), (["next_u32"], {"op": "fill_bytes", "n": 13}),
                                ([], {"op": "next_u32"}), (["next_u64"], {"op": "next_u32"}), (["next_u32", "next_u32"], {"op": "next_u64"})):
                sc = jitter_script(rng, [("random", 400 + 60 * rounds)])
                ops = [{"op": "timer", "t": 1, "readings": [u64(x) for x in sc], "cont": CONT}, {"op": "jit_new", "g": 1, "t": 1},
                       {"op": "set_rounds", "g": 1, "r": rounds}] + [{"op": o, "g": 1} for o in first]
                ops += [{"op": "arm_fault", "g": 1, "after": after}, dict(call, g=1), {"op": "next_u32", "g": 1}, {"op": "next_u32", "g": 1}, {"op": "next_u64", "g": 1}]
                S.case("timer fails at read %d of %s after %s, rounds %d" % (after, call["op"] + str(call.get("n", "")), "+".join(first) or "nothing", rounds), ops, weight=40)


def zero_reading_cases(S, rng):
    """a timer reading of exactly 0 at the priming position of a collection, as a time stamp, as a loop-count draw: the
    collection procedure has no special case for it (only test_timer has)"""
    for pos in (0, 10, 11, 12, 13, 14, 20):
        t = rng.getrandbits(40) + (1 << 34)
        rd = []
        for k in range(80):
            t += 59 + 14 * k + (k * k) % 11
            rd.append(t)
        rd[pos] = 0
        S.case("jitter reading number %d is 0" % pos,
               [{"op": "timer", "t": 1, "readings": [u64(x) for x in rd], "cont": CONT}, {"op": "jit_new", "g": 1, "t": 1}, {"op": "set_rounds", "g": 1, "r": 2},
                {"op": "next_u64", "g": 1}, {"op": "next_u64", "g": 1}, {"op": "next_u32", "g": 1}, {"op": "clone", "g": 1, "to": 2}, {"op": "next_u32", "g": 2},
                {"op": "next_u32", "g": 1}, {"op": "next_u64", "g": 1}], weight=60)


def c12_corpus(seed, tier):
    rng = random.Random(seed * 1000003 + 12)
    S = Sched()
    n = 40 if tier == "quick" else 4000
    styles = [["random"], ["random", "const", "linear", "zero"], ["random", "backwards", "wild"],
              ["random", "big"], ["random", "hundreds", "const"], ["wild"], ["random", "zero", "const", "linear", "backwards", "big"]]
    for i in range(n):
        st = styles[i % len(styles)]
        S.case("jitter %s #%d" % ("+".join(st), i), jitter_case(rng, tier, st))
    # every short sequence of measurement-level deltas over an alphabet chosen for the stuck test
    # (zero, repeats, arithmetic progressions, sign changes); one next_u64 per instance so that the
    # k-th measurement's delta is exactly the k-th letter
    import itertools
    alpha = [0, 3, 6, 9, 10, -3]
    seqs = list(itertools.product(alpha, repeat=4))
    seqs += [(c, d, 0, e, f) for c in (3, 6, 9) for d in (3, 6, 10) for e in (3, 6, 10, -3, -6) for f in (3, 6, 9, 12, 14, 20)]
    # deltas whose first differences agree mod 2^32 but not as integers (x - y = y - z + 2^32): the stuck test takes
    # its differences in 32-bit two's complement, so the third measurement is stuck
    for lead in ((), (7,), (7, 19)):
        for _ in range(3 if tier == "quick" else 40):
            y = -(1 << 30) + rng.randrange(-1000, 1000)
            x = (1 << 30) + rng.randrange(1, 1 << 20)
            z = 2 * y - x + (1 << 32)
            if -(1 << 31) <= z < (1 << 31) and z != 0:
                seqs.append(tuple(lead) + (x, y, z))
                seqs.append(tuple(lead) + (-x, -y, -z))
    if tier != "quick":
        seqs += list(itertools.product([0, 3, 6, 9, 10, -3, 12, (1 << 31) - 1, -(1 << 31)], repeat=5))
    tail = [17, 29, 41, 59, 73, 97, 113, 131, 157, 181, 211, 239, 263, 293]
    chunk = 24
    for lo in range(0, len(seqs), chunk):
        ops = []
        for k, sq in enumerate(seqs[lo:lo + chunk]):
            rounds = 2 + (lo + k) % 2
            t = rng.getrandbits(40) + (1 << 34)
            rd = [t]
            for D in list(sq) + tail:
                a = (t + 1) & M64
                t = (t + D) & M64
                rd += [a, t, (t + 1) & M64]
            g = k + 1
            # every third instance takes its values through fill_bytes(24): three collections inside one call, each with a
            # stuck-test history of its own
            call = {"op": "fill_bytes", "g": g, "n": 24} if (lo + k) % 3 == 2 else {"op": "next_u64", "g": g}
            ops += [{"op": "timer", "t": g, "readings": [u64(x) for x in rd + ([rd[-1] + 19 * (j + 1) + (j * j) % 7 for j in range(40)] if call["op"] == "fill_bytes" else [])], "cont": CONT},
                    {"op": "jit_new", "g": g, "t": g}, {"op": "set_rounds", "g": g, "r": rounds}, call]
        S.case("jitter delta sequences %d.." % lo, ops, weight=chunk * 12)
    # long runs of consecutive stuck measurements (a standing clock, a clock ticking in equal steps) in the middle of
    # a collection: a stuck measurement is repeated however often it takes - no retry limit, no narrow retry counter
    stuck_run_cases(S, rng, (70, 260, 1030, 4100, 65600) if tier == "quick" else (64, 65, 70, 130, 255, 256, 260, 1030, 4100, 32800, 65535, 65536, 65600), 3)
    for r in (1, 127, 128, 254, 255):       # the extreme round counts (u8)
        stuck_run_cases(S, rng, (3,), r)
    zero_reading_cases(S, rng)
    # a scripted generator made after the platform-timer constructor ran in the same process (its cached rounds are its own business)
    sc = jitter_script(rng, [("random", 700)])
    S.case("jitter scripted generator after JitterRng::new()",
           [{"op": "jit_std_new"}, {"op": "timer", "t": 1, "readings": [u64(x) for x in sc], "cont": CONT}, {"op": "jit_new", "g": 1, "t": 1},
            {"op": "next_u64", "g": 1}, {"op": "jit_std_new"}, {"op": "next_u32", "g": 1}, {"op": "next_u32", "g": 1}], weight=300)
    # the one documented panic
    sc = jitter_script(rng, [("random", 100)])
    S.case("jitter set_rounds(0)", [{"op": "timer", "t": 1, "readings": [u64(x) for x in sc], "cont": CONT},
                                    {"op": "jit_new", "g": 1, "t": 1}, {"op": "set_rounds", "g": 1, "r": 2},
                                    {"op": "next_u32", "g": 1}, {"op": "set_rounds", "g": 1, "r": 0},
                                    {"op": "next_u32", "g": 1}, {"op": "next_u64", "g": 1}])
    # the full basis of the LFSR fold and of the stir step (the extraction schedule of C15): binds
    # Jitter.tla's Lfsr and Stir to the code on a basis of both arguments
    for c in c15_schedule(seed, "quick").cases:
        S.case("jitter basis images (hook)", c["ops"])
    return S


# ---------------------------------------------------------------- C14: hostile inputs
def hostile_seg(rng, t, kind, length):
    out = []
    E = [(1 << 31) - 1, 1 << 31, (1 << 31) + 1, (1 << 32) - 1, 1 << 32, (1 << 32) + 1, 1 << 63, M64, M64 - (1 << 31) + 1,
         (1 << 33) - 7, 3, 1]
    if kind == "edge":
        for _ in range(length):
            t = (t + rng.choice(E)) & M64
            out.append(t)
    elif kind == "pingpong":      # time stamps alternate between two values ~2^31 apart: deltas +2^31-ish, -2^31-ish
        a, b = t, (t + (1 << 31) - rng.randrange(1, 50)) & M64
        for i in range(length):
            out.append(((a if i % 2 == 0 else b) + i * rng.randrange(1, 9)) & M64)
        t = out[-1]
    elif kind == "decreasing":
        for _ in range(length):
            t = (t - rng.randrange(1, 1 << rng.choice([4, 12, 31, 33]))) & M64
            out.append(t)
    elif kind == "wrap":
        t = M64 - rng.randrange(0, 1000)
        for _ in range(length):
            t = (t + rng.randrange(1, 700)) & M64
            out.append(t)
    else:
        return seg_readings(rng, t, kind, length)
    return out, t


def hostile_script(rng, kinds, total):
    t = rng.choice([rng.getrandbits(44) + 1, M64 - 5000, (1 << 63) - 100, (1 << 32) - 100])
    out = []
    while len(out) < total:
        k = rng.choice(kinds)
        r, t = hostile_seg(rng, t, k, rng.randrange(3, 25))
        out += r
        r, t = hostile_seg(rng, t, "random", rng.randrange(4, 12))
        out += r
    return out


def c14_jitter_corpus(seed, tier):
    rng = random.Random(seed * 1000003 + 14)
    S = Sched()
    n = 30 if tier == "quick" else 1500
    kindsets = [["edge"], ["pingpong"], ["decreasing"], ["wrap"], ["edge", "pingpong", "decreasing", "wrap", "wild", "zero"]]
    for i in range(n):
        ks = kindsets[i % len(kindsets)]
        rounds = rng.choice([1, 2, 3, 64])
        sc = hostile_script(rng, ks, 60 + 12 * (rounds + 2))
        ops = [{"op": "timer", "t": 1, "readings": [u64(x) for x in sc], "cont": CONT},
               {"op": "jit_new", "g": 1, "t": 1}, {"op": "set_rounds", "g": 1, "r": rounds}]
        for _ in range(rng.randrange(3, 7)):
            r = rng.random()
            if r < 0.3:
                ops.append({"op": "next_u64", "g": 1})
            elif r < 0.55:
                ops.append({"op": "next_u32", "g": 1})
            elif r < 0.75:
                ops.append({"op": "fill_bytes", "g": 1, "n": rng.choice([0, 1, 4, 5, 8, 9, 17, 33])})
            else:
                ops.append({"op": "timer_stats", "g": 1, "var": rng.random() < 0.5})
        S.case("hostile jitter %s #%d" % ("+".join(ks), i), ops)
    # test_timer over hostile timers (1601 readings each)
    nt = 8 if tier == "quick" else 80
    for i in range(nt):
        ks = kindsets[i % len(kindsets)]
        sc = hostile_script(rng, ks if i % 2 else ["pingpong", "edge"], 1700)
        # avoid trivially early exits: no zero readings
        sc = [x if x != 0 else 1 for x in sc]
        S.case("hostile test_timer %s #%d" % ("+".join(ks), i),
               [{"op": "timer", "t": 1, "readings": [u64(x) for x in sc], "cont": CONT},
                {"op": "jit_new", "g": 1, "t": 1}, {"op": "test_timer", "g": 1}, {"op": "next_u32", "g": 1}], weight=500)
    # a timer that stalls for thousands of readings (or a coarse clock read by a fast CPU): one output
    # call then repeats thousands of stuck measurements before it can return
    for i, (stall, rounds) in enumerate([(13500, 1)] if tier == "quick" else [(13500, 1), (15000, 2), (14000, 64)]):
        t = rng.getrandbits(40) + 1
        rd = [t, t + 55, t + 91, t + 140] + [t + 200] * stall
        S.case("hostile jitter stall of %d readings" % stall,
               [{"op": "timer", "t": 1, "readings": [u64(x) for x in rd], "cont": CONT},
                {"op": "jit_new", "g": 1, "t": 1}, {"op": "set_rounds", "g": 1, "r": rounds}, {"op": "next_u64", "g": 1}, {"op": "next_u32", "g": 1}], weight=stall // 3)
    # more consecutive stuck measurements inside ONE output call than a 16-bit counter holds (a retry / statistics
    # counter added to the collection loop must not be narrower than the loop is long)
    stuck_run_cases(S, rng, (65600,) if tier == "quick" else (255, 256, 65535, 65536, 65600, 131200), 3)
    if tier != "quick":
        # millisecond clock: the value changes every 1500 readings
        rd = [1_000_000 * (1 + k // 1500) for k in range(40000)]
        S.case("hostile jitter coarse clock",
               [{"op": "timer", "t": 1, "readings": [u64(x) for x in rd], "cont": CONT},
                {"op": "jit_new", "g": 1, "t": 1}, {"op": "set_rounds", "g": 1, "r": 3}, {"op": "next_u64", "g": 1}], weight=14000)
    # targeted: probe deltas ..., -2^30-5, -2^30, +2^30: the variation sum sees delta - old = +2^31 while
    # every difference in the stuck test stays inside i32
    for shift in (0, 1, 2):
        t = (1 << 50) + 12345
        rd = [t]
        for j in range(1, 401):
            i = j - 101
            d = 1000 + 37 * (j % 11) + (j * j) % 29
            if i == 20 + shift:
                d = -(1 << 30) - 5
            elif i == 21 + shift:
                d = -(1 << 30)
            elif i == 22 + shift:
                d = 1 << 30
            time = (t + 500 + j) & M64
            time2 = (time + d) & M64
            rd += [time, (time + 1) & M64, (time + 2) & M64, time2]
            t = max(time, time2)
        S.case("hostile test_timer variation +2^31 #%d" % shift,
               [{"op": "timer", "t": 1, "readings": [u64(x) for x in rd], "cont": CONT},
                {"op": "jit_new", "g": 1, "t": 1}, {"op": "test_timer", "g": 1}, {"op": "next_u32", "g": 1}], weight=500)
    return S


def c14_api_corpus(seed, tier):
    rng = random.Random(seed * 1000003 + 15)
    S = Sched()
    lens = [0, 1, 2, 3, 4, 5, 6, 7, 8, 9, 10, 11, 12, 13, 14, 15, 16, 17, 63, 64, 65, 1023, 1024, 1025, 2047, 2048, 2049]
    for kind in ALL_SEEDABLE:
        seeds = [[0xFF] * SEEDLEN[kind], [0] * SEEDLEN[kind], [0x80] * SEEDLEN[kind],
                 [0xFF] * (SEEDLEN[kind] - 1) + [0x7F], [rng.getrandbits(8) for _ in range(SEEDLEN[kind])]]
        for si, sd in enumerate(seeds):
            walk = []
            for n in lens:
                walk.append(("fill_bytes", n))
                walk.append((rng.choice(["next_u32", "next_u64"]), 0))
            if tier != "quick" and si == 0:
                walk.append(("fill_bytes", 100000))
            ops = api_case_ops(kind, walk, rng)
            for o in ops:
                if o["op"] == "from_seed":
                    o["seed"] = sd
            S.case("extreme %s seed#%d" % (kind, si), ops, weight=3000)
        # boundary arguments, and the arguments for which the k-th SplitMix64 output is zero (x = -k * PHI)
        adv = [(-k * 0x9E3779B97F4A7C15) & M64 for k in range(1, 9)]
        for x in [0, 1, M64, 1 << 63, (1 << 32) - 1, 1 << 32, (1 << 63) - 1] + adv + [(a + 1) & M64 for a in adv[:2]]:
            walk = [("next_u64", 0), ("fill_bytes", 13), ("next_u32", 0), ("fill_bytes", 0), ("next_u32", 0)]
            ops = api_case_ops(kind, walk, rng)
            for o in ops:
                if o["op"] == "from_seed":
                    o["op"] = "seed_from_u64"
                    del o["seed"]
                    o["x"] = u64(x)
            S.case("extreme %s seed_from_u64(%d)" % (kind, x), ops)
    return S


def c14_ctor_corpus(seed, tier):
    """the source-RNG constructors of every seedable type: working sources (all ones, counting, random, a zero block
    first), sources that fail at the first / second call with and without a partial write (validated by Trace_Alg)"""
    rng = random.Random(seed * 1000003 + 1414)
    S = Sched()
    for kind in ALL_SEEDABLE:
        n = FROMRNG_LEN.get(kind, SEEDLEN[kind])
        nat = native_op(kind)
        for fill in ("ones", "count", "random", "zero-then-random"):
            b = {"ones": [0xFF] * (3 * n), "count": [(i * 7 + 1) & 0xFF for i in range(3 * n)], "random": [rng.getrandbits(8) for _ in range(3 * n)],
                 "zero-then-random": [0] * n + [rng.getrandbits(8) | 1 for _ in range(2 * n)]}[fill]
            for ctor, fallible in (("from_rng", False), ("try_from_rng", True)):
                S.case("%s %s from a source of %s bytes" % (kind, ctor, fill),
                       [{"op": "src", "s": 1, "bytes": b, "fallible": fallible}, {"op": ctor, "g": 1, "kind": kind, "s": 1}, {"op": nat, "g": 1, "n": 3}],
                       weight=20 + (600 if kind.startswith("Isaac") else 0))
        for fail_at, partial in ((1, 0), (1, n - 1), (2, 3)):
            S.case("%s try_from_rng from a source failing at call %d (partial %d)" % (kind, fail_at, partial),
                   [{"op": "src", "s": 1, "bytes": [rng.getrandbits(8) for _ in range(3 * n)], "fallible": True, "fail_at": fail_at, "partial": partial},
                    {"op": "try_from_rng", "g": 2, "kind": kind, "s": 1}, {"op": "try_from_rng", "g": 3, "kind": kind, "s": 1}],
                   weight=20 + (600 if kind.startswith("Isaac") else 0))
    zero_run_source_cases(S, seed)
    return S


def zero_run_source_cases(S, seed, kinds=None):
    """source RNGs that deliver a long run of zero bytes before anything else: 1 200, 3 000 and 70 000 seeds' worth
    (the last on a fresh thread with the default stack).  A type that redraws an all-zero block draws that many
    times; every other type takes the zeros as an ordinary (all-zero) seed."""
    rng = random.Random(seed * 1000003 + 1415)
    for kind in (kinds or ALL_SEEDABLE):
        if kind.startswith("Isaac") and kinds is None:
            continue
        n = FROMRNG_LEN.get(kind, SEEDLEN[kind])
        nat = native_op(kind)
        for blocks, thread in ((1200, False), (3000, False), (70000, True)):
            if blocks > 3000 and kind != "XorShiftRng":
                continue
            for ctor, fallible in (("from_rng", False), ("try_from_rng", True)):
                if thread and fallible:
                    continue
                o = {"op": ctor, "g": 1, "kind": kind, "s": 1}
                if thread:
                    o["on_thread"] = True
                S.case("%s %s from a source starting with %d zero blocks%s" % (kind, ctor, blocks, " (on a fresh thread)" if thread else ""),
                       [{"op": "src", "s": 1, "bytes": [rng.getrandbits(8) | 1 for _ in range(2 * n)], "lead": blocks * n - rng.choice((0, 0, 3)), "fallible": fallible},
                        o, {"op": nat, "g": 1, "n": 3}], weight=300 + blocks // 4)
    return S


def c14_alg_corpus(seed, tier):
    rng = random.Random(seed * 1000003 + 16)
    S = Sched()
    for kind in XO:
        wb = WORDBYTES[kind]
        n = SEEDLEN[kind] // wb
        M = (1 << (8 * wb)) - 1
        ops = []
        for st in ([M] * n, [1 << (8 * wb - 1)] * n, [M] + [0] * (n - 1), [0] * (n - 1) + [M]):
            ops.append({"op": "from_seed", "g": 1, "kind": kind, "seed": words_to_seed(st, wb)})
            ops.append({"op": native_op(kind), "g": 1, "n": 4})
            if kind in XO_JUMP:
                ops.append({"op": "jump", "g": 1})
                ops.append({"op": native_op(kind), "g": 1, "n": 2})
                ops.append({"op": "long_jump", "g": 1})
                ops.append({"op": native_op(kind), "g": 1, "n": 2})
        S.case("extreme states %s" % kind, ops, weight=600)
    return S


# ---------------------------------------------------------------- C13: test_timer scripts
def tt_script(rng, mean, zr=False, zd=False, back=0, mod=0, stuck=0, negalt=False, backmode="small", pauses=0, negfwd=False):
    """A 1601-reading timer script realising (approximately) an abstract summary of the 400 probes:
    probe j reads time, a, b, time2.  Evaluated probes (101..400) get deltas alternating x, x+mean
    so that the mean |delta variation| is `mean`; counts are planted on top.  The exact summary is
    recomputed from the readings by the specification, not here."""
    t = rng.getrandbits(40) + (1 << 20)
    rd = [t]
    v = mean
    x = v + rng.randrange(1, 250) if v < (1 << 30) else rng.randrange(3, 1000)
    if mod == 0 and x % 100 == 0:
        x += 1
    for j in range(1, 401):
        i = j - 101
        if i < 0:
            d = rng.randrange(40, 5000) | 1
        else:
            if negalt:       # deltas alternate -a, +b with a + b = v  (needs 2^32-scale variation)
                a = v // 2
                d = -a if i % 2 == 0 else (v - a)
                if negfwd:
                    # the same 32-bit deltas from a clock that only runs forwards: a step of 2^32 - a truncates to -a
                    a = (v + 1) // 2
                    d = (1 << 32) - a if i % 2 == 0 else (v - a)
                if d == 0:
                    d = 1
            else:
                d = x if i % 2 == 0 else x + v
            if i < stuck:
                d = x                       # constant delta: first difference zero
            elif i < stuck + mod or (mod and i >= 300 - mod and stuck == 0):
                d = 100 * (1 + (i % 7)) + (100 * v if i % 2 else 0)
            if i >= 300 - back:
                # the second reading is smaller: by a little, or by so much that the 32-bit truncated delta is positive
                d = -rng.randrange(1, 90) if backmode == "small" else -((1 << 32) - rng.randrange(20, 5000)) if backmode == "wrap32" else -(3 << 30) - rng.randrange(1, 99)
            elif 100 <= i < 100 + pauses:
                d = (1 << 31) + rng.randrange(1, 5000)      # a long pause: larger second reading, negative truncated delta
        gap = rng.randrange(10, 3000)
        time = (t + gap) & M64
        if zr and j == (57 if zd else 250):
            time = 0
        if zd and j == 131:
            d = 0 if rng.random() < 0.5 else (1 << 32)
        time2 = (time + d) & M64
        rd += [time, (time + 1) & M64, (time + 2) & M64, time2]
        t = max(time, time2) if d >= 0 else time
    return rd


def c13_corpus(seed, tier, cases):
    """cases: abstract boundary summaries printed by TLC (MC_TestTimer) as dicts"""
    rng = random.Random(seed * 1000003 + 13)
    S = Sched()

    def add(label, rd, then_set=True):
        S.case(label, [{"op": "timer", "t": 1, "readings": [u64(x) for x in rd], "cont": CONT},
                       {"op": "jit_new", "g": 1, "t": 1},
                       {"op": "test_timer", "g": 1, "then_set": then_set},
                       {"op": "next_u32", "g": 1}], weight=450)
    for c in cases:
        add("tt mean=%d zr=%s zd=%s back=%d mod=%d stuck=%d" % (c["mean"], c["zr"], c["zd"], c["back"], c["mod"], c["stuck"]),
            tt_script(rng, c["mean"], c["zr"], c["zd"], c["back"], c["mod"], c["stuck"], negalt=c["mean"] >= (1 << 30)))
    # mean variations of 2^31 and more from a clock that never steps back (32-bit deltas alternating between large
    # negative and large positive values): the only way to the rounds estimate with such a mean
    for v in ((1 << 30) + 7, (1 << 31) - 2, (1 << 31) - 1, 1 << 31, (1 << 31) + 1, (1 << 31) + 5, 3 << 30, (1 << 32) - 2, (1 << 32) - 1):
        add("tt forward-only clock, mean variation %d" % v, tt_script(rng, v, negalt=True, negfwd=True))
    # the order of the two readings of a probe vs the sign of their 32-bit truncated difference
    for back, mode in ((3, "wrap32"), (4, "wrap32"), (9, "wrap32"), (4, "wrap30"), (3, "wrap30")):
        add("tt backwards by ~2^32 x%d (%s)" % (back, mode), tt_script(rng, 40 + back, back=back, backmode=mode))
    for pauses in (3, 4, 12):
        add("tt forward pauses >= 2^31 x%d" % pauses, tt_script(rng, 50 + pauses, pauses=pauses))
    # every probe lasts about 2^32 ns (or runs backwards by a multiple of 100): the 32-bit truncated delta, not the
    # full difference, is what "multiple of 100" and "zero delta" are about
    for name, f in (("2^32+100m", lambda i: (1 << 32) + 100 * (3 + i % 9)), ("2^32+100m+4", lambda i: (1 << 32) + 100 * (3 + i % 9) + 4),
                    ("2^33+100m+7", lambda i: (1 << 33) + 100 * (2 + i % 7) + 7), ("2^32+k", lambda i: (1 << 32) + 37 + (i * i) % 89)):
        t = rng.getrandbits(40) + (1 << 20)
        rd = [t]
        for j in range(1, 401):
            time = (t + 977) & M64
            time2 = (time + f(j)) & M64
            rd += [time, (time + 1) & M64, (time + 2) & M64, time2]
            t = time2
        add("tt long probes " + name, rd)
    for nback, step in ((1, 100), (3, 100), (3, 116), (3, 216), (2, 300)):
        # 270 forward multiples of 100 and `nback` backward steps (within the 3 that are tolerated)
        t = rng.getrandbits(40) + (1 << 20)
        rd = [t]
        for j in range(1, 401):
            i = j - 101
            if i < 0:
                d = 1000 + 37 * j
            elif i < 270 - (nback if step % 100 == 0 else 0):
                d = 100 * (2 + i % 11)
            elif i < 270 - (nback if step % 100 == 0 else 0) + nback:
                d = -step
            else:
                d = 100 * (2 + i % 11) + 1 + i % 50
            time = (t + 5000) & M64
            time2 = (time + d) & M64
            rd += [time, (time + 1) & M64, (time + 2) & M64, time2]
            t = max(time, time2)
        add("tt 270 multiples of 100 and %d steps back by %d" % (nback, step), rd)
    # stuck count around the 90% limit (270 of 300) with 1..3 of the stuck probes running BACKWARDS (deltas in an
    # arithmetic progression through zero: second difference zero): every measured probe goes through the stuck test,
    # whatever else is wrong with it
    for L in (range(24, 29) if tier == "quick" else range(20, 33)):
        for nback in ((1, 3) if tier == "quick" else (1, 2, 3)):
            t = rng.getrandbits(40) + (1 << 20)
            rd = [t]
            prog = [2 * k + 1 for k in range(2, -1, -1)] + [-(2 * k + 1) for k in range(nback)]     # 5, 3, 1, -1, (-3, (-5))
            for j in range(1, 401):
                i = j - 101
                if i < 0:
                    d = 1000 + 37 * j + (j * j) % 17
                elif i < L:
                    d = 1200 + 41 * i + (i * i * i) % 23
                elif i < L + len(prog):
                    d = prog[i - L]
                else:
                    d = 1001
                time = (t + 5000) & M64
                time2 = (time + d) & M64
                rd += [time, (time + 1) & M64, (time + 2) & M64, time2]
                t = max(time, time2)
            add("tt %d lively probes, progression through zero with %d backward, then constant" % (L, nback), rd)
    # one anomaly in an otherwise healthy timer, at the first / a middle / the last warm-up probe and at the first / last
    # evaluated probe: a zero first or second reading, a zero delta (equal readings, and readings 2^32 apart)
    for j0 in (1, 50, 100, 101, 400):
        for what in ("time=0", "time2=0", "delta=0", "delta=2^32"):
            t = rng.getrandbits(40) + (1 << 20)
            rd = [t]
            for j in range(1, 401):
                d = 1000 + 37 * (j % 5) + (j * j) % 23 + (20 if j % 2 else 0)
                time = (t + 977) & M64
                if j == j0:
                    if what == "time=0":
                        time = 0
                    elif what == "delta=0":
                        d = 0
                    elif what == "delta=2^32":
                        d = 1 << 32
                time2 = (time + d) & M64
                if j == j0 and what == "time2=0":
                    time2 = 0
                rd += [time, (time + 1) & M64, (time + 2) & M64, time2]
                t = max(time, time2, t)
            add("tt healthy timer with %s at probe %d" % (what, j0), rd)
    # exact sums of the delta variations around the boundaries of the estimate: sum = 300 m + f
    for m in ((1, 2, 3, 15, 16) if tier == "quick" else (1, 2, 3, 4, 7, 8, 15, 16, 31, 32, 63, 64)):
        for f in (0, 100, 150, 200, 299):
            T = 300 * m + f
            x = 7
            w = [(T - x) // 299] * 299
            for k in range((T - x) - sum(w)):
                w[(k * 7) % 299] += 1
            t = rng.getrandbits(40) + (1 << 20)
            rd = [t]
            d = x
            for j in range(1, 401):
                i = j - 101
                if i < 0:
                    dd = 1000 + 37 * j + (j * j) % 17
                elif i == 0:
                    dd = d
                else:
                    d = d + w[i - 1] if i % 2 else d - w[i - 1]
                    if d <= 0:
                        d += 2 * w[i - 1]
                    dd = d
                time = (t + 5000) & M64
                time2 = (time + dd) & M64
                rd += [time, (time + 1) & M64, (time + 2) & M64, time2]
                t = time2
            add("tt sum of delta variations = 300*%d + %d" % (m, f), rd)
    # every probe is fine in itself but the clock steps BACK between probes (each probe starts from the same base, or from
    # a base that decreases): no condition on the probes holds, so Ok
    for name, basef in (("same base", lambda j, b: b), ("decreasing base", lambda j, b: b - 1000 * j), ("saw-tooth base", lambda j, b: b + 5000 * (j % 7))):
        b0 = rng.getrandbits(40) + (1 << 30)
        rd = [b0]
        for j in range(1, 401):
            time = basef(j, b0) & M64
            d = 1000 + 37 * (j % 5) + (j * j) % 23 + (20 if j % 2 else 0)
            rd += [time, (time + 1) & M64, (time + 2) & M64, (time + d) & M64]
        add("tt healthy probes, %s" % name, rd)
    # test_timer called twice on one generator (and on a clone of it): the second verdict is about the readings of the
    # second run - a clock that was fine and is now dead (zeros), or coarse (steps of 100)
    for bad in ("zeros", "steps of 100"):
        t = rng.getrandbits(40) + (1 << 20)
        rd = [t]
        for j in range(1, 401):
            d = 1000 + 37 * (j % 5) + (j * j) % 23 + (20 if j % 2 else 0)
            time = t + 977
            rd += [time, time + 1, time + 2, time + d]
            t = time + d
        good_len = len(rd)
        for j in range(1, 1700):
            t = 0 if bad == "zeros" else t + 100 * (1 + j % 3)
            rd.append(t)
        S.case("tt twice: a healthy clock, then %s" % bad,
               [{"op": "timer", "t": 1, "readings": [u64(x) for x in rd], "cont": [u64(0)] if bad == "zeros" else [u64(100)]}, {"op": "jit_new", "g": 1, "t": 1},
                {"op": "test_timer", "g": 1}, {"op": "clone", "g": 1, "to": 2}, {"op": "test_timer", "g": 1}, {"op": "test_timer", "g": 2}], weight=1400)
    # exactly at the stuck limit (270 of the 300 measured probes), where one probe more or less changes the verdict, and the
    # first measured probe has the very delta that the generator's LAST measurement before this call had: test_timer run
    # three times over the same deltas, and after a collection whose last delta is that one (what an earlier call left
    # behind is none of this call's business)
    def deltas_270(first):
        d = [300 + 13 * k + (k * k) % 17 for k in range(100)]
        d += [first + 7 * k * k for k in range(29)]
        return d + [first] * 271

    def tt_from_deltas(start, deltas):
        v, cur = [start], start
        for d in deltas:
            time = cur + 40
            v += [time, time + 1, time + 2, time + d]
            cur = time + d
        return v
    for first in (1001, 4097, 77):
        rd = tt_from_deltas(rng.getrandbits(40) + 5000, deltas_270(first))
        rd += tt_from_deltas(rd[-1] + 1000, deltas_270(first)) + tt_from_deltas(rd[-1] + 900000, deltas_270(first))
        S.case("tt at the stuck limit (270), three times over the same deltas (first=%d)" % first,
               [{"op": "timer", "t": 1, "readings": [u64(x) for x in rd], "cont": CONT}, {"op": "jit_new", "g": 1, "t": 1},
                {"op": "test_timer", "g": 1}, {"op": "test_timer", "g": 1}, {"op": "test_timer", "g": 1, "then_set": True}, {"op": "next_u32", "g": 1}], weight=1400)
    for r in (1, 8):
        t = rng.getrandbits(40) + (1 << 20)
        pre = []
        for k in range(1 + 3 + 3 * r):
            t += 211 + 37 * k + (k * k * k) % 101
            pre.append(t)
        last = pre[-2] - pre[-5]            # the delta of the collection's last measurement (time stamps are every third reading)
        first = last + 1 if last % 100 == 0 else last
        rd = pre + tt_from_deltas(pre[-1] + 1000, deltas_270(first))
        S.case("tt at the stuck limit (270) after a collection whose last delta is the first measured one (rounds %d)" % r,
               [{"op": "timer", "t": 1, "readings": [u64(x) for x in rd], "cont": CONT}, {"op": "jit_new", "g": 1, "t": 1}, {"op": "set_rounds", "g": 1, "r": r},
                {"op": "next_u64", "g": 1}, {"op": "test_timer", "g": 1, "then_set": True}, {"op": "next_u32", "g": 1}], weight=900)
    # clocks that tick in units other than 1 (and not in multiples of 100): every delta a multiple of the unit
    for unit in (2, 101, 128, 143, 1024, 4096, 3 << 20):
        t = (rng.getrandbits(30) + 1000) * unit
        rd = [t]
        for k in range(1600):
            t += unit * rng.randrange(1, 1 << rng.choice([4, 8, 11]))
            rd.append(t)
        add("tt clock ticking in units of %d" % unit, rd)
    # seeded random timers
    for i in range(6 if tier == "quick" else 500):
        style = rng.choice(["jit", "coarse", "const", "lin", "wild"])
        t = rng.getrandbits(40) + 1
        rd = [t]
        for k in range(1600):
            if style == "jit":
                t += rng.randrange(1, 1 << rng.choice([3, 6, 10, 16]))
            elif style == "coarse":
                t += 100 * rng.randrange(0, 4)
            elif style == "const":
                t += 25
            elif style == "lin":
                t += 10 + (k % 4)
            else:
                t = rng.getrandbits(64) if rng.random() < 0.02 else t + rng.randrange(1, 5000)
            rd.append(t & M64)
        add("tt random %s #%d" % (style, i), rd)
    return S


# ---------------------------------------------------------------- C15: extraction of the pool maps
C15_R1, C15_R2 = 0x0F1E2D3C4B5A6978, 0x8796A5B4C3D2E1F0     # the two loop-count readings of the variable-round path


def c15_schedule(seed, tier):
    rng = random.Random(seed * 1000003 + 15)
    S = Sched()
    C = 0x0123456789ABCDEF       # the fixed time value for pool -> Lfsr(pool, c)
    P0 = 0xDEADBEEF0BADF00D      # the fixed pool value for time -> Lfsr(p0, time)
    readings, ops = [], []

    def fold(tag, pool, time):
        readings.extend([time, (time + 1) & M64])
        ops.append({"op": "set_pool", "g": 1, "pool": u64(pool)})
        ops.append({"op": "timer_stats", "g": 1, "var": False, "tag": tag})

    def foldv(tag, pool, time):
        # the variable-round path (the one entropy collection uses): 4 readings, two of them loop-count draws
        readings.extend([time, C15_R1, C15_R2, (time + 1) & M64])
        ops.append({"op": "set_pool", "g": 1, "pool": u64(pool)})
        ops.append({"op": "timer_stats", "g": 1, "var": True, "tag": tag})

    def stir(tag, pool):
        ops.append({"op": "set_pool", "g": 1, "pool": u64(pool)})
        ops.append({"op": "stir", "g": 1, "tag": tag})
    for i in range(-1, 64):
        fold(["lp", i], 0 if i < 0 else 1 << i, C)
    for j in range(-1, 64):
        fold(["lt", j], P0, 0 if j < 0 else 1 << j)
    def collect(tag, pool):
        # one whole collection (next_u64, default rounds) over identical readings: the cursor is re-seated first
        late.append({"op": "seek", "g": 1, "pos": None})
        late.append({"op": "set_pool", "g": 1, "pool": u64(pool)})
        late.append({"op": "next_u64", "g": 1, "tag": tag})
    nx_at, late = [None], []      # the whole-collection calls run after all the others (they move the cursor)
    for i in range(-1, 64):
        foldv(["lv", i], 0 if i < 0 else 1 << i, C)
    for j in range(-1, 64):
        foldv(["tv", j], P0, 0 if j < 0 else 1 << j)
    for i in range(-1, 64):
        stir(["st", i], 0 if i < 0 else 1 << i)
    # NB: the linear part of "lp"/"lt" is taken relative to f(0) recorded with the same fixed argument
    n = 40 if tier == "quick" else 500
    for k in range(n):
        a, b = rng.getrandbits(64), rng.getrandbits(64)
        for which, v in (("a", a), ("b", b), ("ab", a ^ b)):
            fold(["aff", "lp", k, which], v, C)
            fold(["aff", "lt", k, which], P0, v)
            foldv(["aff", "lv", k, which], v, C)
            foldv(["aff", "tv", k, which], P0, v)
            if k < 12:
                collect(["aff", "nx", k, which], v)
            stir(["aff", "st", k, which], v)
    for i in range(-1, 64):
        collect(["nx", i], 0 if i < 0 else 1 << i)
    # the readings of the whole-collection calls: appended after everything the other calls consume
    nx_at[0] = len(readings)
    for o in late:
        if o["op"] == "seek":
            o["pos"] = nx_at[0]
    ops.extend(late)
    t = rng.getrandbits(48)
    for k in range(1200):
        t = (t + rng.choice([0, 1, 17, 100, 101, 977, 4099, rng.getrandbits(20), rng.getrandbits(33)])) & M64
        readings.append(t)
    # the fold while the high half of a value is still owed (timer_stats between the two next_u32 of a pair): the same
    # bijection of the whole 64-bit pool, in the pool ("lh") and in the time value ("th")
    S.nx_readings = readings[nx_at[0]:]
    h_at = len(readings)
    for k in range(1 + 3 * 2):          # one collection with rounds = 1: priming reading + 2 measurements
        t = (t + 1000 + 37 * k + (k * k) % 13) & M64
        readings.append(t)
    ops += [{"op": "set_rounds", "g": 1, "r": 1}, {"op": "seek", "g": 1, "pos": h_at}, {"op": "next_u32", "g": 1}]

    def foldh(tag, pool, time):
        pos = len(readings)
        readings.extend([time, (time + 1) & M64])
        ops.append({"op": "seek", "g": 1, "pos": pos})
        ops.append({"op": "set_pool", "g": 1, "pool": u64(pool)})
        ops.append({"op": "timer_stats", "g": 1, "var": False, "tag": tag})
    for i in range(-1, 64):
        foldh(["lh", i], 0 if i < 0 else 1 << i, C)
    for j in range(-1, 64):
        foldh(["th", j], P0, 0 if j < 0 else 1 << j)
    for k in range(min(n, 40)):
        a, b = rng.getrandbits(64), rng.getrandbits(64)
        for which, v in (("a", a), ("b", b), ("ab", a ^ b)):
            foldh(["aff", "lh", k, which], v, C)
            foldh(["aff", "th", k, which], P0, v)
    # test_timer also stirs the pool (400 probes): for fixed readings it is a bijection of the pool as well - whether
    # it returns Ok ("tp": a healthy clock) or gives up early ("tf": a zero reading at the fifth probe)
    S.tt_readings = {}
    for kindt in ("tp", "tf"):
        seg_at = len(readings)
        tt = rng.getrandbits(40) + (1 << 20)
        seg = [tt]
        for j in range(1, 401):
            d = 1000 + 37 * (j % 5) + (j * j) % 23 + (20 if j % 2 else 0)
            time = tt + 977
            seg += [0 if (kindt == "tf" and j == 5) else time, time + 1, time + 2, time + d]
            tt = time + d
        readings.extend(seg)
        S.tt_readings[kindt] = seg
        for i in range(-1, 64):
            ops += [{"op": "seek", "g": 1, "pos": seg_at}, {"op": "set_pool", "g": 1, "pool": u64(0 if i < 0 else 1 << i)}, {"op": "test_timer", "g": 1, "tag": [kindt, i]}]
        for k in range(6):
            a, b = rng.getrandbits(64), rng.getrandbits(64)
            for which, v in (("a", a), ("b", b), ("ab", a ^ b)):
                ops += [{"op": "seek", "g": 1, "pos": seg_at}, {"op": "set_pool", "g": 1, "pool": u64(v)}, {"op": "test_timer", "g": 1, "tag": ["aff", kindt, k, which]}]
    head = [{"op": "timer", "t": 1, "readings": [u64(x) for x in readings], "cont": [u64(1009)]},
            {"op": "jit_new", "g": 1, "t": 1}]
    S.case("pool map extraction", head + ops)
    return S


# ---------------------------------------------------------------- C02 / C03
def isaac_premixed(bits):
    """the eight initial values a..h of randinit: the golden ratio mixed four times (input construction only)"""
    M = (1 << bits) - 1
    v = [0x9e3779b9 if bits == 32 else 0x9e3779b97f4a7c13] * 8
    for _ in range(4):
        a, b, c, d, e, f, g, h = v
        if bits == 32:
            a ^= (b << 11) & M; d = (d + a) & M; b = (b + c) & M
            b ^= c >> 2; e = (e + b) & M; c = (c + d) & M
            c ^= (d << 8) & M; f = (f + c) & M; d = (d + e) & M
            d ^= e >> 16; g = (g + d) & M; e = (e + f) & M
            e ^= (f << 10) & M; h = (h + e) & M; f = (f + g) & M
            f ^= g >> 4; a = (a + f) & M; g = (g + h) & M
            g ^= (h << 8) & M; b = (b + g) & M; h = (h + a) & M
            h ^= a >> 9; c = (c + h) & M; a = (a + b) & M
        else:
            a = (a - e) & M; f ^= h >> 9; h = (h + a) & M
            b = (b - f) & M; g ^= (a << 9) & M; a = (a + b) & M
            c = (c - g) & M; h ^= b >> 23; b = (b + c) & M
            d = (d - h) & M; a ^= (c << 15) & M; c = (c + d) & M
            e = (e - a) & M; b ^= d >> 14; d = (d + e) & M
            f = (f - b) & M; c ^= (e << 20) & M; e = (e + f) & M
            g = (g - c) & M; d ^= f >> 17; f = (f + g) & M
            h = (h - d) & M; e ^= (g << 14) & M; g = (g + h) & M
        v = [a, b, c, d, e, f, g, h]
    return v


def block_alg_corpus(kind, seed, tier, n_unit_words, long_words, salt):
    """unit-bit seeds (every key/IV resp. seed bit), structured seeds, random seeds, long runs"""
    rng = random.Random(seed * 1000003 + salt)
    S = Sched()
    nat = native_op(kind)
    nbits = 256
    units = range(nbits) if tier != "quick" else [b for b in range(nbits) if b % 8 in (0, 7) or b < 8 or b >= 248][:72]
    for bit in units:
        S.case("%s unit bit %d" % (kind, bit), [{"op": "from_seed", "g": 1, "kind": kind, "seed": unit_seed(kind, bit)},
                                               {"op": nat, "g": 1, "n": n_unit_words}], weight=n_unit_words + 300)
    structured = [[0] * 32, [0xFF] * 32, [0x80] * 32, list(range(32)), [0xAA, 0x55] * 16, [0] * 16 + [0xFF] * 16, [0xFF] * 16 + [0] * 16, [1] + [0] * 31]
    if kind.startswith("Isaac"):
        # key words that cancel (or double, or complement) the initial a..h of randinit in its first step: the state the
        # key schedule starts from is then blank or degenerate
        bits = 32 if kind == "IsaacRng" else 64
        pm = isaac_premixed(bits)[:256 // bits]
        for f in (lambda w: -w, lambda w: w, lambda w: ~w, lambda w: 1 - w):
            structured.append([b for w in pm for b in (f(w) & ((1 << bits) - 1)).to_bytes(bits // 8, "little")])
    structured += [s for s in structured_seeds(kind, rng) if s not in structured]
    for i, sd in enumerate(structured):
        S.case("%s structured %d" % (kind, i), [{"op": "from_seed", "g": 1, "kind": kind, "seed": sd},
                                                {"op": nat, "g": 1, "n": n_unit_words}], weight=n_unit_words + 300)
    for r in range(4 if tier == "quick" else 240):
        sd = [rng.getrandbits(8) for _ in range(32)]
        ops = [{"op": "from_seed", "g": 1, "kind": kind, "seed": sd}]
        left = n_unit_words * (1 if kind == "Hc128Rng" else 3)
        while left > 0:
            n = min(left, rng.choice([1, 5, 16, 17, 100, 256]))
            ops.append({"op": nat, "g": 1, "n": n})
            left -= n
        S.case("%s random %d" % (kind, r), ops, weight=n_unit_words * 3 + 300)
    for r in range(1 if tier == "quick" else 28):
        sd = [rng.getrandbits(8) for _ in range(32)]
        ops = [{"op": "from_seed", "g": 1, "kind": kind, "seed": sd}]
        left = long_words
        while left > 0:
            n = min(left, 512)
            ops.append({"op": nat, "g": 1, "n": n})
            left -= n
        S.case("%s long run %d" % (kind, r), ops, weight=long_words + 300)
    # the bare core: BlockRngCore::generate called directly, block by block
    core = {"Hc128Rng": "Hc128Core", "IsaacRng": "IsaacCore", "Isaac64Rng": "Isaac64Core"}[kind]
    for r in range(3 if tier == "quick" else 20):
        sd = structured[r] if r < 2 else [rng.getrandbits(8) for _ in range(32)]
        nblk = 70 if kind == "Hc128Rng" else 3
        S.case("%s generate %d" % (core, r), [{"op": "from_seed", "g": 1, "kind": core, "seed": sd}] + [{"op": "generate", "g": 1} for _ in range(nblk)],
               weight=nblk * (16 if kind == "Hc128Rng" else 256) + 300)
    # volume: data-dependent faults with a probability around 2^-16 per word need a few hundred thousand words
    bulk = {"IsaacRng": (14, 20480), "Isaac64Rng": (14, 20480), "Hc128Rng": (14, 8192)}[kind] if tier == "quick" else \
           {"IsaacRng": (56, 40960), "Isaac64Rng": (56, 40960), "Hc128Rng": (56, 32768)}[kind]
    for r in range(bulk[0]):
        sd = [rng.getrandbits(8) for _ in range(32)]
        ops = [{"op": "from_seed", "g": 1, "kind": kind, "seed": sd}]
        left = bulk[1]
        if r == 0 and kind.startswith("Isaac"):
            left = 70000          # one run past block 256 (word 65 536): a block counter reduced like an index shows there
        while left > 0:
            n = min(left, 1024)
            ops.append({"op": nat, "g": 1, "n": n})
            left -= n
        S.case("%s bulk run %d" % (kind, r), ops, weight=(70000 if r == 0 and kind.startswith("Isaac") else bulk[1]) + 300)
    return S


# ---------------------------------------------------------------- C08 / C09
def src_bytes(rng, kind, zero_blocks, total_blocks=6):
    bl = SEEDLEN[kind] if kind not in ("IsaacRng", "Isaac64Rng") else SEEDLEN[kind]
    out = [0] * (bl * zero_blocks)
    while len(out) < bl * total_blocks:
        out.append(rng.getrandbits(8))
    # make sure the first non-zero block really is non-zero
    if out[bl * zero_blocks: bl * (zero_blocks + 1)] == [0] * bl:
        out[bl * zero_blocks] = 1
    return out


def c08_corpus(seed, tier, adversarial):
    rng = random.Random(seed * 1000003 + 8)
    S = Sched()
    PHI = 0x9E3779B97F4A7C15
    for kind in LINEAR:
        nat = native_op(kind)
        L = SEEDLEN[kind]
        ops = [{"op": "from_seed", "g": 1, "kind": kind, "seed": [0] * L}, {"op": nat, "g": 1, "n": 8}]
        if kind != "XorShiftRng":
            ops += [{"op": "seed_from_u64", "g": 2, "kind": kind, "x": u64(0)}, {"op": "from_seed", "g": 1, "kind": kind, "seed": [0] * L},
                    {"op": "eq", "a": 1, "b": 2}, {"op": nat, "g": 2, "n": 8}]
        # almost-zero seeds: one non-zero byte at each end and in the middle, each bit value
        for pos in (0, 1, L // 2, L - 2, L - 1):
            for val in (1, 0x80):
                sd = [0] * L
                sd[pos] = val
                ops += [{"op": "from_seed", "g": 3, "kind": kind, "seed": sd}, {"op": nat, "g": 3, "n": 2}]
        # non-zero seeds whose bytes / words cancel under xor or under addition: a zero test that folds
        # the seed instead of looking at every byte would remap them
        wbk = WORDBYTES[kind]
        cancel = [[0x2A] * L, [0xFF] * L, [1] + [0] * (L - 2) + [1], [0, 7] + [0] * (L - 4) + [7, 0],
                  [1] + [0] * (L - 2) + [0xFF], ([0x10, 0x32, 0x54, 0x76, 0x98, 0xBA, 0xDC, 0xFE][:wbk]) * (L // wbk),
                  ([1] + [0] * (wbk - 1)) + ([0xFF] * wbk) * (L // wbk - 1)]
        w0 = rng.getrandbits(8 * wbk) | 1
        neg = (-w0) & ((1 << (8 * wbk)) - 1)
        cancel.append(list(w0.to_bytes(wbk, "little")) + list(neg.to_bytes(wbk, "little")) + [0] * (L - 2 * wbk))
        cancel.append(list(w0.to_bytes(wbk, "little")) * 2 + [0] * (L - 2 * wbk))
        for sd in cancel:
            if len(sd) == L and any(sd):
                ops += [{"op": "from_seed", "g": 3, "kind": kind, "seed": sd}, {"op": nat, "g": 3, "n": 2}]
        S.case("%s zero and almost-zero seeds" % kind, ops)
        # u64 arguments: the adversarial ones (some seed word is zero), neighbours, random
        xs = list(adversarial) + [(a + 1) & M64 for a in adversarial[:2]] + [0, 1, M64, 1 << 63] + [rng.getrandbits(64) for _ in range(4 if tier == "quick" else 400)]
        ops = []
        for x in xs:
            ops += [{"op": "seed_from_u64", "g": 1, "kind": kind, "x": u64(x)}, {"op": nat, "g": 1, "n": 3}]
        S.case("%s seed_from_u64 adversarial" % kind, ops)
        # sources with leading all-zero blocks
        ops = []
        sid = 1
        for z in range(0, 4):
            for fallible in (False, True):
                ops.append({"op": "src", "s": sid, "bytes": src_bytes(rng, kind, z), "fallible": fallible})
                ops.append({"op": "try_from_rng" if fallible else "from_rng", "g": 1, "kind": kind, "s": sid})
                ops.append({"op": nat, "g": 1, "n": 3})
                ops.append({"op": "try_from_rng" if fallible else "from_rng", "g": 2, "kind": kind, "s": sid})   # cursor carried over
                ops.append({"op": nat, "g": 2, "n": 2})
                sid += 1
        S.case("%s from_rng with leading zero blocks" % kind, ops)
        # blocks that are zero except for ONE byte: the "is the block all zero?" test must look at every byte
        ops, sid = [], 1
        positions = range(L) if (L <= 16 or tier != "quick") else sorted({0, 1, L // 2, L - 9, L - 8, L - 5, L - 4, L - 3, L - 2, L - 1})
        for pos in positions:
            for fallible in (False, True):
                blk = [0] * L
                blk[pos] = rng.choice([1, 0x80, 0xFF])
                tail = [rng.getrandbits(8) | 1 for _ in range(2 * L)]
                ops.append({"op": "src", "s": sid, "bytes": blk + tail, "fallible": fallible})
                ops.append({"op": "try_from_rng" if fallible else "from_rng", "g": 1, "kind": kind, "s": sid})
                ops.append({"op": nat, "g": 1, "n": 2})
                sid += 1
        S.case("%s from_rng with almost-zero blocks" % kind, ops)
        # long runs of all-zero blocks: a redraw / remap must not give up after some number of them
        ops, sid = [], 1
        for z in ((8, 64, 70, 1030) if tier == "quick" else (8, 63, 64, 65, 70, 128, 300, 1000, 1023, 1024, 1030, 4000)):
            for fallible in (False, True):
                ops.append({"op": "src", "s": sid, "bytes": src_bytes(rng, kind, z, z + 3), "fallible": fallible})
                ops.append({"op": "try_from_rng" if fallible else "from_rng", "g": 1, "kind": kind, "s": sid})
                ops.append({"op": nat, "g": 1, "n": 3})
                sid += 1
        S.case("%s from_rng after many zero blocks" % kind, ops)
        # the documented REPLACEMENT of the zero seed used as an ordinary input (seed, and block drawn from a source): it is
        # not a zero seed - it is used verbatim, nothing is redrawn
        ops = []
        if kind == "XorShiftRng":
            rep = [0xED, 0x5E, 0xAD, 0x0B] * 4
            tail = [rng.getrandbits(8) | 1 for _ in range(3 * L)]
            ops += [{"op": "from_seed", "g": 1, "kind": kind, "seed": rep}, {"op": nat, "g": 1, "n": 3}]
            for fallible in (False, True):
                ops += [{"op": "src", "s": 1 + fallible, "bytes": rep + tail, "fallible": fallible},
                        {"op": "try_from_rng" if fallible else "from_rng", "g": 1, "kind": kind, "s": 1 + fallible}, {"op": nat, "g": 1, "n": 3}]
            ops += [{"op": "src", "s": 3, "bytes": rep + tail, "fallible": True, "fail_at": 2}, {"op": "try_from_rng", "g": 1, "kind": kind, "s": 3}, {"op": nat, "g": 1, "n": 2}]
            S.case("%s the replacement constant as an input" % kind, ops)
        # z all-zero blocks and then the source FAILS (at call z + 1, with and without a partial write, sticky or not):
        # no generator may come back - in particular not one built from the zero block in hand
        ops, sid = [], 1
        for z in (1, 2, 5):
            for partial in (0, 3, L - 1):
                for sticky in (False, True):
                    ops.append({"op": "src", "s": sid, "bytes": src_bytes(rng, kind, z, z + 3), "fallible": True, "fail_at": z + 1, "partial": partial, "sticky": sticky})
                    ops.append({"op": "try_from_rng", "g": 1, "kind": kind, "s": sid})
                    sid += 1
        S.case("%s try_from_rng: zero blocks, then the source fails" % kind, ops)
    return S


def c09_corpus(seed, tier):
    rng = random.Random(seed * 1000003 + 9)
    S = Sched()
    PHI = 0x9E3779B97F4A7C15
    heavy = {"Hc128Rng": 3, "IsaacRng": 3, "Isaac64Rng": 3}
    for kind in ALL_SEEDABLE:
        nat = native_op(kind)
        nx = (4 if kind in heavy else 10) if tier == "quick" else (60 if kind in heavy else 400)
        xs = [0, 1, M64, (-PHI) & M64, 1 << 32, 1 << 63][: (3 if kind in heavy and tier == "quick" else 6)] + [rng.getrandbits(64) for _ in range(nx)]
        ops = []
        for x in xs:
            ops += [{"op": "seed_from_u64", "g": 1, "kind": kind, "x": u64(x)}, {"op": nat, "g": 1, "n": 40 if kind in heavy else 8}]
        S.case("%s seed_from_u64 values" % kind, ops, weight=len(xs) * (300 if kind in heavy else 10))
        # from_rng: exactly one seed's worth (or the whole ISAAC state) from the cursor
        ops, sid = [], 1
        for rep in range(2 if tier == "quick" else 24):
            n = FROMRNG_LEN.get(kind, SEEDLEN[kind])
            b = [rng.getrandbits(8) for _ in range(2 * n + 7)]
            ops.append({"op": "src", "s": sid, "bytes": b})
            ops += [{"op": "from_rng", "g": 1, "kind": kind, "s": sid}, {"op": nat, "g": 1, "n": 20}]
            ops += [{"op": "from_rng", "g": 2, "kind": kind, "s": sid}, {"op": nat, "g": 2, "n": 4}]
            sid += 1
        if kind == "XorShiftRng":
            # very many all-zero blocks first: every one of them is redrawn, the source ends exactly one block further
            for z in ((1030,) if tier == "quick" else (1023, 1024, 1030, 4000)):
                for ctor, fallible in (("from_rng", False), ("try_from_rng", True)):
                    ops += [{"op": "src", "s": sid, "bytes": [0] * (16 * z) + [rng.getrandbits(8) | 1 for _ in range(48)], "fallible": fallible},
                            {"op": ctor, "g": 1, "kind": kind, "s": sid}, {"op": nat, "g": 1, "n": 4}]
                    sid += 1
        # a source delivering only zeros: an ordinary key (for ISAAC exactly from_seed([0; 32]) with two passes)
        if kind not in LINEAR:
            ops += [{"op": "src", "s": sid, "bytes": [0] * (2 * FROMRNG_LEN.get(kind, SEEDLEN[kind])), "fallible": False},
                    {"op": "from_rng", "g": 1, "kind": kind, "s": sid}, {"op": nat, "g": 1, "n": 6}]
            sid += 1
        S.case("%s from_rng" % kind, ops, weight=len(ops) * (150 if kind in heavy else 5))
        # try_from_rng with failing sources
        ops, sid = [], 1
        n = FROMRNG_LEN.get(kind, SEEDLEN[kind])
        for fail_at in (None, 1, 2, 3):
            for partial, sticky in ((0, False), (5, False), (0, True)):
                if fail_at is None and (partial or sticky):
                    continue
                z = rng.choice([0, 0, 1, 2]) if kind == "XorShiftRng" else 0
                b = src_bytes(rng, kind, z) if kind == "XorShiftRng" else [rng.getrandbits(8) for _ in range(3 * n + 5)]
                o = {"op": "src", "s": sid, "bytes": b, "fallible": True, "partial": partial, "sticky": sticky}
                if fail_at is not None:
                    o["fail_at"] = fail_at
                ops.append(o)
                for g in (1, 2, 3):
                    ops.append({"op": "try_from_rng", "g": g, "kind": kind, "s": sid})
                    ops.append({"op": "drop", "g": g})
                sid += 1
        if kind in LINEAR:
            # an almost-zero block (one non-zero byte) must be accepted at once: a wrong redraw would run into the failure
            L = SEEDLEN[kind]
            for pos in (range(L) if L <= 16 else (0, L // 2, L - 4, L - 1)):
                blk = [0] * L
                blk[pos] = 0x40
                ops.append({"op": "src", "s": sid, "bytes": blk + [rng.getrandbits(8) | 1 for _ in range(2 * L)], "fallible": True, "fail_at": 2})
                ops.append({"op": "try_from_rng", "g": 1, "kind": kind, "s": sid})
                ops.append({"op": "drop", "g": 1})
                sid += 1
        # and one successful try_from_rng whose generator is compared with from_rng of the same bytes
        b = [rng.getrandbits(8) for _ in range(2 * n + 3)]
        ops += [{"op": "src", "s": 90, "bytes": b}, {"op": "src", "s": 91, "bytes": b, "fallible": True},
                {"op": "from_rng", "g": 1, "kind": kind, "s": 90}, {"op": "try_from_rng", "g": 2, "kind": kind, "s": 91},
                {"op": nat, "g": 1, "n": 6}, {"op": nat, "g": 2, "n": 6}]
        S.case("%s try_from_rng" % kind, ops, weight=len(ops) * (120 if kind in heavy else 5))
    return S


FROMRNG_LEN = {"IsaacRng": 1024, "Isaac64Rng": 2048}


# ---------------------------------------------------------------- C10 / C11
class _Everything:
    def __contains__(self, k):
        return True


# == is attempted on every type: the harness finds out at compile time whether the type provides it and records
# "no_ret" otherwise (the trace specifications ignore such events)
HAS_EQ = _Everything()
SERDE_KINDS = list(XO) + ["SplitMix64", "XorShiftRng", "IsaacRng", "Isaac64Rng"]


def opj(op, g, n=None, mirror=None):
    o = {"op": op[0] if isinstance(op, tuple) else op, "g": g}
    if isinstance(op, tuple) and op[0] == "fill_bytes":
        o["n"] = op[1]
        o["off"] = (op[1] + 3 * g) % 8          # destination offset from an 8-byte boundary
    if n is not None:
        o["n"] = n
    if mirror is not None:
        o["mirror"] = mirror
    return o


def lockstep(ops_list, gs):
    """apply each op to gs[0], then mirrored to the others in a chain"""
    out = []
    for op in ops_list:
        out.append(opj(op, gs[0]))
        for i in range(1, len(gs)):
            out.append(opj(op, gs[i], mirror=gs[i - 1]))
    return out


def suffix_ops(kind, rng, blockbytes):
    # the first operation is next_u32: it is the one that observes a pending half word
    ops = [("next_u32", 0), ("fill_bytes", 5), ("next_u32", 0), ("next_u64", 0), ("next_u32", 0)]
    if blockbytes:
        ops += [("fill_bytes", blockbytes + 3), ("next_u32", 0), ("next_u64", 0), ("fill_bytes", 1)]
    else:
        ops += [("fill_bytes", rng.choice([13, 16, 23])), ("next_u64", 0)]
    if kind in XO_JUMP:
        ops += [("jump", 0), ("next_u64", 0), ("long_jump", 0), ("next_u32", 0), ("fill_bytes", 9)]
    ops += [("next_u32", 0), ("next_u32", 0), ("next_u64", 0)]
    return ops


def mixed_value_corpus(kind, seed, tier):
    """histories mixing next_u32 / next_u64 / fill_bytes with clone and clone_from onto a generator in another phase,
    validated against the composed model with VALUES (Trace_Full): the word stream stays the algorithm's keystream
    through every such history"""
    rng = random.Random(seed * 1000003 + 4242 + len(kind))
    S = Sched()
    bb = {"Hc128Rng": 64, "IsaacRng": 1024, "Isaac64Rng": 2048}.get(kind)
    for r in range(3 if tier == "quick" else 20):
        sd = [rng.getrandbits(8) for _ in range(SEEDLEN[kind])]
        sd2 = [rng.getrandbits(8) for _ in range(SEEDLEN[kind])]
        ops = [{"op": "from_seed", "g": 1, "kind": kind, "seed": sd}, {"op": "from_seed", "g": 2, "kind": kind, "seed": sd2}]
        ops += [opj(e, 1) for e in random_walk(rng, 6, WORDBYTES[kind], bb)]
        ops += [opj(e, 2) for e in random_walk(rng, 3 + r, WORDBYTES[kind], bb)]
        ops += [{"op": "clone", "g": 1, "to": 3}, {"op": "clone_from", "g": 2, "from": 1}]
        for g in (1, 2, 3):
            ops += [opj(e, g) for e in random_walk(rng, 5, WORDBYTES[kind], bb)]
        ops += [opj(("fill_bytes", 0), 1), opj(("next_u32", 0), 1), opj(("fill_bytes", (bb or 8) * 2 + 1), 2), opj(("next_u32", 0), 2), opj(("next_u64", 0), 3)]
        S.case("%s mixed history with clone / clone_from #%d" % (kind, r), ops, weight=300 + (bb or 0))
    if bb:
        # the other width of output call at the last positions of a block (one, two, three words left), and after it
        wpb = bb // 4 if kind != "Isaac64Rng" else bb // 8
        for left in (1, 2, 3):
            sd = [rng.getrandbits(8) for _ in range(SEEDLEN[kind])]
            nat, other = ("next_u32", "next_u64") if kind != "Isaac64Rng" else ("next_u64", "next_u32")
            ops = [{"op": "from_seed", "g": 1, "kind": kind, "seed": sd}, {"op": nat, "g": 1, "n": wpb - left},
                   {"op": other, "g": 1}, {"op": nat, "g": 1, "n": 3}, {"op": other, "g": 1}, {"op": "fill_bytes", "g": 1, "n": 9}, {"op": nat, "g": 1, "n": wpb - left - 2}, {"op": other, "g": 1}, {"op": other, "g": 1}, {"op": nat, "g": 1, "n": 2}]
            S.case("%s: the other output call with %d word(s) of the block left" % (kind, left), ops, weight=600 + bb)
    return S


def far_corpus(seed, tier, quick_kinds=None):
    """Positions far into the stream (past 2^8 / 2^16 blocks resp. words, where narrow counters would wrap): a
    generator and its clone skip the same number of bytes, one through fill_bytes, the other through its native
    call, and then run in lock step.  Only an FNV digest of the skipped bytes is recorded (Trace_Pair: the digests and
    everything after must agree, and nothing may panic)."""
    rng = random.Random(seed * 1000003 + 77)
    S = Sched()
    bb = {"Hc128Rng": 64, "IsaacRng": 1024, "Isaac64Rng": 2048}
    for kind in ALL_SEEDABLE:
        nat = "u32" if WORDBYTES[kind] == 4 else "u64"
        blk = bb.get(kind, 8)
        skips = [(1 << 8) * blk + 3 * blk]
        skips.append((1 << 16) * blk + 300 * blk)
        for si, n in enumerate(skips):
            sd = [rng.getrandbits(8) for _ in range(SEEDLEN[kind])]
            ops = [{"op": "from_seed", "g": 1, "kind": kind, "seed": sd}, {"op": "next_u32", "g": 1}, {"op": "clone", "g": 1, "to": 2},
                   {"op": "skip", "g": 1, "bytes": n, "via": "fill"}, {"op": "skip", "g": 2, "bytes": n, "via": nat, "mirror": 1}]
            ops += lockstep([("next_u32", 0), ("next_u64", 0), ("fill_bytes", 13), ("fill_bytes", blk + 3), ("next_u32", 0)], [1, 2])
            ops += [{"op": "skip", "g": 1, "bytes": 40 * blk, "via": nat}, {"op": "skip", "g": 2, "bytes": 40 * blk, "via": "fill", "mirror": 1}]
            ops += lockstep([("next_u64", 0), ("next_u32", 0), ("fill_bytes", 7)], [1, 2])
            if kind in HAS_EQ:
                # out there a generator still equals the one it ran in lock step with, and a clone made there (both ways round)
                ops += [{"op": "eq", "a": 1, "b": 2}, {"op": "eq", "a": 2, "b": 1}, {"op": "clone", "g": 1, "to": 3},
                        {"op": "eq", "a": 1, "b": 3}, {"op": "eq", "a": 3, "b": 1}]
                ops += lockstep([("next_u32", 0), ("fill_bytes", blk + 1)], [1, 3])
                ops += [{"op": "eq", "a": 3, "b": 1}]
            S.case("%s far position %d bytes" % (kind, n), ops, weight=40 + n // 200000)
    return S


def very_far_corpus(seed, digest=False):
    """Hc128Rng past word 2^32 (16 GiB of output; a few seconds in an optimised build): where a 32-bit word or step
    counter would wrap.  Run in the optimised build WITH overflow checks."""
    rng = random.Random(seed * 1000003 + 78)
    S = Sched()
    sd = [rng.getrandbits(8) for _ in range(32)]
    ops = [{"op": "from_seed", "g": 1, "kind": "Hc128Rng", "seed": sd}, {"op": "next_u32", "g": 1},
           {"op": "skip", "g": 1, "kib": (1 << 24) + 16, "via": "fill", "digest": digest},
           {"op": "next_u32", "g": 1}, {"op": "next_u64", "g": 1}, {"op": "fill_bytes", "g": 1, "n": 70, "off": 3}, {"op": "next_u32", "g": 1}]
    S.case("Hc128Rng past word 2^32", ops, weight=100)
    # ISAAC 2^18 + 40 blocks in (quantities that grow with the number of blocks - the counter c, and b, which accumulates
    # it - have long left the range a short run shows)
    for kind, kib in (("IsaacRng", (1 << 18) + 40), ("Isaac64Rng", (1 << 18) + 80)):
        for sd in ([0] * 32, [rng.getrandbits(8) for _ in range(32)]):
            ops = [{"op": "from_seed", "g": 1, "kind": kind, "seed": sd}, {"op": "next_u32", "g": 1},
                   {"op": "skip", "g": 1, "kib": kib, "via": "fill", "digest": digest},
                   {"op": "next_u32", "g": 1}, {"op": "next_u64", "g": 1}, {"op": "fill_bytes", "g": 1, "n": 70, "off": 3}, {"op": "next_u32", "g": 1}]
            S.case("%s 2^18 blocks in (%s seed)" % (kind, "zero" if not any(sd) else "random"), ops, weight=100)
    return S


def c10_corpus(seed, tier, node_paths_by_kind):
    rng = random.Random(seed * 1000003 + 10)
    S = Sched()
    bb = {"Hc128Rng": 64, "IsaacRng": 1024, "Isaac64Rng": 2048}
    # A. buffered generators: clone at buffer positions taken from the model's state graph
    for kind, paths in node_paths_by_kind.items():
        nodes = sorted(paths, key=lambda x: (str(type(x[0])), x))
        if tier == "quick" and len(nodes) > 40:
            nodes = [n for i, n in enumerate(nodes) if i % (len(nodes) // 28) == 0 or (isinstance(n[0], int) and n[0] >= 254)]
        for node in nodes:
            sd = [rng.getrandbits(8) for _ in range(32)]
            ops = [{"op": "from_seed", "g": 1, "kind": kind, "seed": sd}]
            ops += [opj(e, 1) for e in paths[node]]
            ops += [{"op": "clone", "g": 1, "to": 2}, {"op": "eq", "a": 1, "b": 2}]
            ops += lockstep(suffix_ops(kind, rng, bb[kind]), [1, 2])
            ops += [{"op": "eq", "a": 1, "b": 2}]
            # Clone::clone_from onto a generator that is in the middle of another block (and, for Isaac64Rng, owes a half)
            ops += [{"op": "from_seed", "g": 7, "kind": kind, "seed": [rng.getrandbits(8) for _ in range(32)]}, opj(("next_u32", 0), 7, n=3),
                    {"op": "clone_from", "g": 7, "from": 1}, {"op": "eq", "a": 1, "b": 7}]
            ops += lockstep([("next_u32", 0), ("next_u64", 0), ("fill_bytes", 9), ("next_u32", 0)], [1, 7])
            if True:      # every buffered type (== is used wherever the type provides it, see the harness)
                # same seed, another read position of the same block / same position, another seed
                ops += [{"op": "from_seed", "g": 3, "kind": kind, "seed": sd}, {"op": "from_seed", "g": 4, "kind": kind, "seed": sd}]
                ops += [opj(("next_u32", 0), 3, n=3), opj(("next_u32", 0), 4, n=4), {"op": "eq", "a": 3, "b": 4}]
                ops += lockstep([("next_u32", 0), ("next_u64", 0)], [3, 4])
                sd2 = list(sd)
                sd2[31] ^= 0x80
                ops += [{"op": "from_seed", "g": 5, "kind": kind, "seed": sd}, {"op": "from_seed", "g": 6, "kind": kind, "seed": sd2},
                        opj(("next_u32", 0), 5, n=3), opj(("next_u32", 0), 6, n=3), {"op": "eq", "a": 5, "b": 6}]
                ops += lockstep([("next_u32", 0), ("fill_bytes", 9)], [5, 6])
                # same seed, same buffer index, but one of the two owes the high half of a word (64-bit words) resp.
                # reached the index by another route: next_u32 next to next_u64; two next_u32 next to one next_u64
                for ga, gb, ra, rb in ((8, 9, [("next_u32", 0)], [("next_u64", 0)]), (10, 11, [("next_u32", 0), ("next_u32", 0)], [("next_u64", 0)]),
                                       (12, 13, [("next_u64", 0), ("next_u32", 0)], [("next_u64", 0), ("next_u64", 0)])):
                    ops += [{"op": "from_seed", "g": ga, "kind": kind, "seed": sd}, {"op": "from_seed", "g": gb, "kind": kind, "seed": sd}]
                    ops += [opj(e, ga) for e in ra] + [opj(e, gb) for e in rb] + [{"op": "eq", "a": ga, "b": gb}]
                    ops += lockstep([("next_u32", 0), ("next_u64", 0), ("next_u32", 0)], [ga, gb])
                    ops += [{"op": "eq", "a": ga, "b": gb}]
            S.case("%s clone at %s" % (kind, node), ops, weight=len(ops) * (1 + bb[kind] // 64))
    # B. plain generators
    for kind in list(XO) + ["SplitMix64", "XorShiftRng"]:
        for r in range(3 if tier == "quick" else 25):
            sd = [rng.getrandbits(8) for _ in range(SEEDLEN[kind])]
            ops = [{"op": "from_seed", "g": 1, "kind": kind, "seed": sd}]
            ops += [opj(e, 1) for e in random_walk(rng, rng.randrange(0, 6), WORDBYTES[kind])]
            ops += [{"op": "clone", "g": 1, "to": 2}, {"op": "eq", "a": 1, "b": 2}]
            ops += lockstep(suffix_ops(kind, rng, None), [1, 2])
            ops += [{"op": "eq", "a": 1, "b": 2}]
            # Clone::clone_from onto a generator with another history
            ops += [{"op": "from_seed", "g": 7, "kind": kind, "seed": [rng.getrandbits(8) | 1 for _ in range(SEEDLEN[kind])]}, opj(("next_u32", 0), 7),
                    {"op": "clone_from", "g": 7, "from": 1}, {"op": "eq", "a": 1, "b": 7}]
            ops += lockstep([("next_u32", 0), ("next_u64", 0), ("fill_bytes", 9)], [1, 7])
            # one step apart; one seed bit apart (highest bit of the last word)
            sd2 = list(sd)
            sd2[-1] ^= 0x80
            ops += [{"op": "from_seed", "g": 3, "kind": kind, "seed": sd}, {"op": "from_seed", "g": 4, "kind": kind, "seed": sd},
                    opj((native_op(kind), 0), 4), {"op": "eq", "a": 3, "b": 4}]
            ops += lockstep([("next_u64", 0), ("next_u32", 0)], [3, 4])
            ops += [{"op": "from_seed", "g": 5, "kind": kind, "seed": sd}, {"op": "from_seed", "g": 6, "kind": kind, "seed": sd2}, {"op": "eq", "a": 5, "b": 6}]
            ops += lockstep([("next_u64", 0), ("fill_bytes", 11)] + ([("jump", 0), ("next_u64", 0)] if kind in XO_JUMP else []), [5, 6])
            S.case("%s clone/eq #%d" % (kind, r), ops)
    # B2. plain generators: pairs of states that differ in exactly one word (low bit, high bit), or in two adjacent
    # words with the same wrapping sum resp. the same xor: an == that skips a word or compares a digest of the
    # words calls them equal, and the lock-step run then shows the difference
    for kind in list(XO) + ["SplitMix64", "XorShiftRng"]:
        L, wb = SEEDLEN[kind], WORDBYTES[kind]
        nw, bits = L // wb, 8 * wb
        mask = (1 << bits) - 1
        for r in range(1 if tier == "quick" else 6):
            ws = [rng.getrandbits(bits) | (1 << (bits - 2)) for _ in range(nw)]
            variants = []
            for i in range(nw):
                for d in (1, 1 << (bits - 1)):
                    v = list(ws)
                    v[i] ^= d
                    variants.append(("word %d bit" % i, v))
                if nw > 1:
                    j = (i + 1) % nw
                    d = rng.getrandbits(bits - 1) | 1
                    v = list(ws)
                    v[i], v[j] = (v[i] + d) & mask, (v[j] - d) & mask
                    variants.append(("words %d,%d same sum" % (i, j), v))
                    v = list(ws)
                    v[i], v[j] = v[i] ^ d, v[j] ^ d
                    variants.append(("words %d,%d same xor" % (i, j), v))
                    # word differences (xor) that add up to 0 mod 2^w: the top bit twice; d and -d; all ones and 1
                    for di, dj in ((1 << (bits - 1), 1 << (bits - 1)), (d, (-d) & mask), (mask, 1)):
                        v = list(ws)
                        v[i], v[j] = v[i] ^ di, v[j] ^ dj
                        variants.append(("words %d,%d differences adding up to 0" % (i, j), v))
            enc = lambda v: [b for w in v for b in w.to_bytes(wb, "little")]
            ops = []
            for name, v in variants:
                ops += [{"op": "from_seed", "g": 1, "kind": kind, "seed": enc(ws)}, {"op": "from_seed", "g": 2, "kind": kind, "seed": enc(v)},
                        {"op": "eq", "a": 1, "b": 2}]
                ops += lockstep([(native_op(kind), 0), ("next_u64", 0)] + ([("next_u64", 0)] * 3 if nw > 4 else []), [1, 2])
            S.case("%s pairs one word / same sum / same xor apart #%d" % (kind, r), ops)
    # C. bare cores
    for kind in ("Hc128Core", "IsaacCore", "Isaac64Core"):
        for r in range(2 if tier == "quick" else 10):
            sd = [rng.getrandbits(8) for _ in range(32)]
            ops = [{"op": "from_seed", "g": 1, "kind": kind, "seed": sd}]
            ops += [{"op": "generate", "g": 1} for _ in range(rng.randrange(0, 3))]
            ops += [{"op": "clone", "g": 1, "to": 2}, {"op": "eq", "a": 1, "b": 2}]
            ops += lockstep([("generate", 0), ("generate", 0)], [1, 2])
            ops += [{"op": "eq", "a": 1, "b": 2}]
            ops += [{"op": "from_seed", "g": 3, "kind": kind, "seed": sd}, {"op": "from_seed", "g": 4, "kind": kind, "seed": sd},
                    {"op": "generate", "g": 4}, {"op": "eq", "a": 3, "b": 4}]
            ops += lockstep([("generate", 0)], [3, 4])
            # Clone::clone_from onto a core that has produced another number of blocks (from another seed)
            ops += [{"op": "from_seed", "g": 7, "kind": kind, "seed": [rng.getrandbits(8) for _ in range(32)]}]
            ops += [{"op": "generate", "g": 7} for _ in range(1 + r % 3)]
            ops += [{"op": "clone_from", "g": 7, "from": 1}, {"op": "eq", "a": 1, "b": 7}]
            ops += lockstep([("generate", 0), ("generate", 0)], [1, 7])
            ops += [{"op": "eq", "a": 1, "b": 7}]
            S.case("%s clone/eq #%d" % (kind, r), ops, weight=300)
    return S


def c10_perturbed(images, rng):
    """second phase: snapshots of ISAAC cores with exactly one field perturbed, and IsaacArray pairs"""
    S = Sched()
    for kind, img in images.items():
        wb = 4 if kind == "IsaacCore" else 8
        fields = {"mem[0]": 0, "mem[255]": 255 * wb, "a": 256 * wb, "b": 257 * wb, "c": 258 * wb, "mem[128] high byte": 128 * wb + wb - 1}
        if len(img) != 259 * wb:
            # the core is serialized in another layout than mem[256], a, b, c: perturb what there is (first, middle, last byte)
            fields = {"first byte": 0, "a middle byte": len(img) // 2, "last byte": len(img) - 1}
        for name, off in fields.items():
            im2 = list(img)
            im2[off] ^= 0x01 if "high" not in name else 0x80
            ops = [{"op": "de_image", "kind": kind, "image": img, "to": 1}, {"op": "de_image", "kind": kind, "image": im2, "to": 2},
                   {"op": "eq", "a": 1, "b": 2}]
            ops += lockstep([("generate", 0), ("generate", 0)], [1, 2])
            ops += [{"op": "de_image", "kind": kind, "image": img, "to": 3}, {"op": "de_image", "kind": kind, "image": img, "to": 4}, {"op": "eq", "a": 3, "b": 4}]
            ops += lockstep([("generate", 0)], [3, 4])
            S.case("%s perturbed %s" % (kind, name), ops, weight=300)
    # two fields changed at once so that a sum, a difference or an xor of them is unchanged (a comparison of a
    # combination of fields instead of the fields), and two fields exchanged
    for kind, img in images.items():
        wb = 4 if kind == "IsaacCore" else 8
        if len(img) != 259 * wb:
            continue
        mask = (1 << (8 * wb)) - 1
        rd = lambda im, i: int.from_bytes(bytes(im[i * wb:(i + 1) * wb]), "little")

        def wr(im, i, v):
            im[i * wb:(i + 1) * wb] = list((v & mask).to_bytes(wb, "little"))
        names = {256: "a", 257: "b", 258: "c"}
        pairs = [(256, 257), (257, 258), (256, 258), (0, 1), (255, 256), (7, 135), (0, 255)]
        for (i, j) in pairs:
            for mode in ("sum", "difference", "xor", "exchanged"):
                for d in ((1, rng.getrandbits(8 * wb) | 2) if mode != "exchanged" else (0,)):
                    im2 = list(img)
                    x, y = rd(img, i), rd(img, j)
                    if mode == "sum":
                        wr(im2, i, x + d), wr(im2, j, y - d)
                    elif mode == "difference":
                        wr(im2, i, x + d), wr(im2, j, y + d)
                    elif mode == "xor":
                        wr(im2, i, x ^ d), wr(im2, j, y ^ d)
                    else:
                        wr(im2, i, y), wr(im2, j, x)
                    if im2 == list(img):
                        continue
                    ni, nj = names.get(i, "mem[%d]" % i), names.get(j, "mem[%d]" % j)
                    ops = [{"op": "de_image", "kind": kind, "image": img, "to": 1}, {"op": "de_image", "kind": kind, "image": im2, "to": 2},
                           {"op": "eq", "a": 1, "b": 2}, {"op": "eq", "a": 2, "b": 1}]
                    ops += lockstep([("generate", 0), ("generate", 0), ("generate", 0)], [1, 2])
                    S.case("%s: %s and %s changed together, %s unchanged (d=%d)" % (kind, ni, nj, mode, d) if mode != "exchanged" else
                           "%s: %s and %s exchanged" % (kind, ni, nj), ops, weight=300)
    for kind, wb in (("IsaacArrayU32", 4), ("IsaacArrayU64", 8)):
        base = [rng.getrandbits(8) for _ in range(256 * wb)]
        for name, off in (("first element", 0), ("last element", 255 * wb), ("last byte", 256 * wb - 1), ("middle", 100 * wb + 1)):
            b2 = list(base)
            b2[off] ^= 0x10
            ops = [{"op": "de_image", "kind": kind, "image": base, "to": 1}, {"op": "de_image", "kind": kind, "image": b2, "to": 2},
                   {"op": "eq", "a": 1, "b": 2}, {"op": "clone", "g": 1, "to": 3}, {"op": "eq", "a": 1, "b": 3}]
            S.case("%s pair differing in %s" % (kind, name), ops, weight=50)
    return S


def structured_seeds(kind, rng):
    """non-zero seeds with structure that a folded / summed / partial validity test would mistake for the zero seed
    or for one another: almost-zero, all-equal words, words cancelling under xor and under wrapping addition"""
    L, wb = SEEDLEN[kind], WORDBYTES[kind]
    nw, bits = L // wb, 8 * wb
    mask = (1 << bits) - 1

    def words(ws):
        return [b for w in ws for b in (w & mask).to_bytes(wb, "little")]
    out = []
    for pos in (0, L // 2, L - 1):
        for val in (1, 0x80):
            sd = [0] * L
            sd[pos] = val
            out.append(sd)
    out += [[0x2A] * L, [0xFF] * L]
    if nw >= 2:
        a = rng.getrandbits(bits) | 1
        out.append(words([1, mask] + [0] * (nw - 2)))                       # 1 + (2^w - 1) = 0
        out.append(words([a, -a] + [0] * (nw - 2)))                          # a + (-a) = 0
        out.append(words([0] * (nw - 2) + [a, -a]))
        out.append(words([a, a] + [0] * (nw - 2)))                           # a ^ a = 0
        out.append(words([a] * nw))                                           # xor of an even number of equal words
        out.append(words([(1 << bits) // nw] * nw if (1 << bits) % nw == 0 else [1] * nw))   # nw equal words adding up to 2^w
        out.append(words([1 << (bits - 1)] * 2 + [0] * (nw - 2)))            # two top bits: sum wraps to 0
        out.append(words([mask] * (nw - 1) + [nw - 1]))                       # (nw-1)*(2^w-1) + (nw-1) = 0 mod 2^w
        r = [rng.getrandbits(bits) for _ in range(nw - 1)]
        out.append(words(r + [-sum(r)]))                                      # random words adding up to 0
        x = 0
        for v in r:
            x ^= v
        out.append(words(r + [x]))                                            # random words xor-ing to 0
    return [s for s in out if len(s) == L and any(s)]


def c11_corpus(seed, tier, node_paths_by_kind):
    rng = random.Random(seed * 1000003 + 11)
    S = Sched()
    bb = {"IsaacRng": 1024, "Isaac64Rng": 2048}

    def snap_ops(kind, pre, blockbytes):
        ops = pre + [{"op": "clone", "g": 1, "to": 4}, {"op": "ser", "g": 1},
                     {"op": "de", "g": 1, "to": 2, "fmt": "bincode"}, {"op": "de", "g": 1, "to": 3, "fmt": "json"},
                     # a snapshot OF the restored generator, before anything else touched it (second generation)
                     {"op": "ser", "g": 2}, {"op": "de", "g": 2, "to": 6, "fmt": "bincode"},
                     # the snapshot as one field of a larger record, between two integers
                     {"op": "de", "g": 2, "to": 9, "fmt": "embedded"}]
        if kind in HAS_EQ:
            ops += [{"op": "eq", "a": 1, "b": 2}, {"op": "eq", "a": 1, "b": 3}]
        ops += lockstep(suffix_ops(kind, rng, blockbytes), [1, 4, 2, 3, 6, 9])
        if kind in HAS_EQ:
            ops += [{"op": "eq", "a": 1, "b": 2}, {"op": "eq", "a": 2, "b": 3}]
        # snapshot of the restored generator again (round trip of a round trip)
        ops += [{"op": "ser", "g": 2}, {"op": "de", "g": 2, "to": 5, "fmt": "bincode"}]
        ops += lockstep([("next_u32", 0), ("next_u64", 0), ("fill_bytes", 7)], [2, 5])
        return ops
    for kind, paths in node_paths_by_kind.items():
        nodes = sorted(paths, key=lambda x: (str(type(x[0])), x))
        if tier == "quick" and len(nodes) > 40:
            nodes = [n for i, n in enumerate(nodes) if i % (len(nodes) // 24) == 0 or (isinstance(n[0], int) and n[0] >= 254)]
        for node in nodes:
            sd = [rng.getrandbits(8) for _ in range(32)]
            pre = [{"op": "from_seed", "g": 1, "kind": kind, "seed": sd}] + [opj(e, 1) for e in paths[node]]
            S.case("%s snapshot at %s" % (kind, node), snap_ops(kind, pre, bb[kind]), weight=40 * (bb[kind] // 64))
    for kind in list(XO) + ["SplitMix64", "XorShiftRng"]:
        for r in range(3 if tier == "quick" else 25):
            sd = [rng.getrandbits(8) for _ in range(SEEDLEN[kind])]
            pre = [{"op": "from_seed", "g": 1, "kind": kind, "seed": sd}] + [opj(e, 1) for e in random_walk(rng, rng.randrange(0, 6), WORDBYTES[kind])]
            if kind in XO_JUMP and r % 2:
                pre.append({"op": "jump", "g": 1})
            S.case("%s snapshot #%d" % (kind, r), snap_ops(kind, pre, None))
        # structured states (every non-zero state of these types is reachable: from_seed stores the seed verbatim)
        ops = []
        for si, sd in enumerate(structured_seeds(kind, rng)):
            for steps in ((0,) if tier == "quick" and si % 3 else (0, 1)):
                ops += [{"op": "from_seed", "g": 1, "kind": kind, "seed": sd}]
                if steps:
                    ops += [{"op": native_op(kind), "g": 1}]
                ops += [{"op": "ser", "g": 1}, {"op": "de", "g": 1, "to": 2, "fmt": "bincode"}, {"op": "de", "g": 1, "to": 3, "fmt": "json"}]
                if kind in HAS_EQ:
                    ops += [{"op": "eq", "a": 1, "b": 2}, {"op": "eq", "a": 1, "b": 3}]
                ops += lockstep([("next_u32", 0), ("next_u64", 0), ("fill_bytes", 5)], [1, 2, 3])
        S.case("%s snapshots of structured states" % kind, ops)
    return S


# ---------------------------------------------------------------- C17
def c17_corpus(seed, tier, walks_by_kind):
    rng = random.Random(seed * 1000003 + 17)
    S = Sched()
    nseeds = 3 if tier == "quick" else 6
    # fixed seeds (reproducible whatever VERIF_SEED is)
    fixed = random.Random(17)
    seeds32 = [[fixed.getrandbits(8) for _ in range(32)] for _ in range(nseeds)] + [[0] * 32, [0xFF] * 32]
    for kind in ("Hc128Rng", "IsaacRng", "Isaac64Rng", "XorShiftRng"):
        walks = list(walks_by_kind.get(kind, []))[: (4 if tier == "quick" else 80)]
        bb = {"Hc128Rng": 64, "IsaacRng": 1024, "Isaac64Rng": 2048}.get(kind)
        walks += [random_walk(rng, 25, WORDBYTES[kind], bb) for _ in range(3 if tier == "quick" else 60)]
        for wi, w in enumerate(walks):
            w = w[:40]
            ops = []
            for si, sd in enumerate(seeds32):
                g = si + 1
                ops.append({"op": "from_seed", "g": g, "kind": kind, "seed": sd[:SEEDLEN[kind]]})
                ops.append({"op": "debug", "g": g})
                for e in w:
                    ops.append(opj(e, g))
                    ops.append({"op": "debug", "g": g})
            S.case("%s debug walk #%d" % (kind, wi), ops, weight=len(ops) * (1 + (bb or 0) // 256))
    for kind in ("Hc128Core", "IsaacCore", "Isaac64Core"):
        ops = []
        for si, sd in enumerate(seeds32):
            g = si + 1
            ops += [{"op": "from_seed", "g": g, "kind": kind, "seed": sd}, {"op": "debug", "g": g}, {"op": "generate", "g": g},
                    {"op": "debug", "g": g}, {"op": "generate", "g": g}, {"op": "debug", "g": g},
                    {"op": "clone", "g": g, "to": g + 20}, {"op": "debug", "g": g + 20}]
        S.case("%s debug" % kind, ops)
    for wi in range(3 if tier == "quick" else 12):
        w = random_walk(rng, 8, 8)
        ops = []
        for si in range(nseeds):
            g = si + 1
            sc = jitter_script(random.Random(1000 * wi + si), [("random", 2000)])
            ops += [{"op": "timer", "t": g, "readings": [u64(x) for x in sc], "cont": CONT}, {"op": "jit_new", "g": g, "t": g},
                    {"op": "set_rounds", "g": g, "r": 2}, {"op": "debug", "g": g}]
            for e in w:
                ops.append(opj(e, g))
                ops.append({"op": "debug", "g": g})
            ops += [{"op": "timer_stats", "g": g, "var": True}, {"op": "debug", "g": g}, {"op": "timer_stats", "g": g, "var": False}, {"op": "debug", "g": g},
                    {"op": "test_timer", "g": g}, {"op": "debug", "g": g}, {"op": "next_u32", "g": g}, {"op": "debug", "g": g},
                    {"op": "clone", "g": g, "to": g + 30}, {"op": "debug", "g": g + 30}]
        S.case("JitterRng debug walk #%d" % wi, ops)
    return S


# ---------------------------------------------------------------- C19
def c19_corpus(seed, tier, scheds):
    """scheds: complete interleavings from TLC (MC_Instances_gen): lists of (g, thread, op)"""
    rng = random.Random(seed * 1000003 + 19)
    S = Sched()
    kinds = ALL_SEEDABLE + ["JitterRng"]
    pairs = [(k, k) for k in kinds] + [(kinds[i], kinds[(i + 7) % len(kinds)]) for i in range(len(kinds))]
    n = 60 if tier == "quick" else 4000
    pick = rng.sample(scheds, min(n, len(scheds)))
    # one extra family: two instances of ONE kind built by DIFFERENT constructors from arguments that coincide as
    # bytes (from_seed(x as little-endian bytes, zero padded) next to seed_from_u64(x)), in both orders
    related = [(k, x, order) for k in ALL_SEEDABLE for x in (0, 1, rng.getrandbits(64)) for order in (0, 1)]
    if tier == "quick":
        related = [r for r in related if r[1] == 0 or r[0] in ("IsaacRng", "Isaac64Rng", "Hc128Rng", "XorShiftRng")]
    pick = pick + rng.sample(scheds, min(len(related), len(scheds)))
    for ci, sc in enumerate(pick):
        k1, k2 = pairs[ci % len(pairs)]
        rel = related[ci - n] if ci >= n and ci - n < len(related) else None
        if rel:
            k1 = k2 = rel[0]
        kind = {1: k1, 2: k2}
        same_seed = (k1 == k2 and ci % 2 == 0) and not rel
        seeds = {}
        for g in (1, 2):
            if kind[g] != "JitterRng":
                mode = rng.choice(["rand", "rand", "zero", "u64zero"])
                seeds[g] = (mode, [rng.getrandbits(8) for _ in range(SEEDLEN[kind[g]])])
        if rel:
            xb = list(rel[1].to_bytes(8, "little"))
            sd = (xb + [0] * SEEDLEN[k1])[:SEEDLEN[k1]]
            a, b = ("rand", sd), ("u64", rel[1])
            seeds[1], seeds[2] = (a, b) if rel[2] == 0 else (b, a)
        if same_seed and k1 != "JitterRng":
            seeds[2] = seeds[1]
        # choose the output op of every step of every instance up front
        outs = {g: [rng.choice([("next_u32", 0), ("next_u64", 0), ("fill_bytes", rng.choice([0, 1, 5, 8, 13, 31]))]) for _ in range(8)] for g in (1, 2)}
        ops = []
        tsc = {g: timer_script(random.Random(seed + 77 * ci + (0 if same_seed else g)), 600) for g in (1, 2)}
        # twins first, solo, on the main thread (instances 11, 12 are the twins of 1, 2)

        def ctor(g, inst, th=None):
            if kind[g] == "JitterRng":
                o = [{"op": "timer", "t": inst, "readings": [u64(x) for x in tsc[g]], "cont": CONT},
                     {"op": "jit_new", "g": inst, "t": inst}, {"op": "set_rounds", "g": inst, "r": 24}]      # long collections: the unscripted background overlaps them
            else:
                mode, sd = seeds[g]
                if mode == "zero":
                    o = [{"op": "from_seed", "g": inst, "kind": kind[g], "seed": [0] * SEEDLEN[kind[g]]}]
                elif mode == "u64zero":
                    o = [{"op": "seed_from_u64", "g": inst, "kind": kind[g], "x": u64(0)}]
                elif mode == "u64":
                    o = [{"op": "seed_from_u64", "g": inst, "kind": kind[g], "x": u64(sd)}]
                else:
                    o = [{"op": "from_seed", "g": inst, "kind": kind[g], "seed": sd}]
            if th is not None:
                for x in o:
                    if x["op"] != "timer":
                        x["th"] = th
            return o
        solo = []          # each entry: the ops of ONE solo run, executed in a process of its own
        for g in (1, 2):
            N = words_needed(outs[g], WORDBYTES[kind[g]])
            solo.append(ctor(g, 10 + g) + [{"op": native_op(kind[g]), "g": 10 + g, "n": N, "role": "twin", "of": g}])
            if kind[g] == "SplitMix64":
                solo.append(ctor(g, 20 + g) + [{"op": "next_u32", "g": 20 + g, "n": N, "role": "twin32", "of": g}])
        ops.append({"op": "bg_start", "threads": 6 if "JitterRng" in (k1, k2) else 2, "kinds": sorted({k1, k2})})
        cnt = {1: 0, 2: 0}
        for (g, t, what) in sc:
            if what == "new":
                ops += ctor(g, g, th=t)
            else:
                op, nn = outs[g][cnt[g]]
                cnt[g] += 1
                o = {"op": op, "g": g, "th": t}
                if op == "fill_bytes":
                    o["n"] = nn
                ops.append(o)
        ops.append({"op": "bg_stop"})
        cid = S.case("interleaving #%d %s|%s%s" % (ci, k1, k2, " same seed" if same_seed else ""), ops)
        S.cases[-1]["solo"] = solo
    return S


# ---------------------------------------------------------------- C18
def c18_corpora(seed, tier):
    """three fixed corpora (algorithm, API, jitter) replayed identically in every build configuration"""
    rng = random.Random(seed * 1000003 + 18)
    alg = Sched()
    src = c01_corpus(seed, "quick")
    for i, c in enumerate(src.cases):
        if "random" in c["label"] or "structured" in c["label"] or i % 6 == 0:
            alg.case(c["label"], c["ops"], c["weight"])
    for c in c04_corpus(seed, "quick").cases[:6]:
        alg.case(c["label"], c["ops"], c["weight"])
    for kind in ("Hc128Rng", "IsaacRng", "Isaac64Rng"):
        bc = block_alg_corpus(kind, seed, "quick", 32 if kind == "Hc128Rng" else 256, 600, 18).cases
        for c in [x for x in bc if "bulk" not in x["label"]][-7:] + [x for x in bc if "bulk" in x["label"]][:1]:
            alg.case(c["label"], c["ops"], c["weight"])
    for c in c09_corpus(seed, "quick").cases:
        if "seed_from_u64" in c["label"] or c["label"].startswith("Xo") or "XorShift" in c["label"]:
            alg.case(c["label"], c["ops"], c["weight"])
    zero_run_source_cases(alg, seed, ["XorShiftRng", "Xoshiro256PlusPlus", "Xoroshiro64Star"])
    api = Sched()
    for kind in ALL_SEEDABLE:
        bb = {"Hc128Rng": 64, "IsaacRng": 1024, "Isaac64Rng": 2048}.get(kind)
        for r in range(2 if tier == "quick" else 6):
            api.case("%s mixed calls %d" % (kind, r), api_case_ops(kind, random_walk(rng, 40, WORDBYTES[kind], bb), rng))
        # long requests into destinations at every offset from an 8-byte boundary
        base = bb or 1024
        w = []
        for i, n in enumerate([base + 1, 2 * base, 3 * base + 5, 2 * base + 3, base, 4 * base + 2, base + base // 2, 3 * base]):
            w += [("fill_bytes", n), rng.choice([("next_u32", 0), ("next_u64", 0)])]
        ops = api_case_ops(kind, w, rng)
        k = 0
        for o in ops:
            if o["op"] == "fill_bytes":
                o["off"] = (1, 2, 3, 4, 5, 6, 7, 0)[k % 8]
                k += 1
        api.case("%s long requests at all destination offsets" % kind, ops, weight=8 * base // 4)
    jit = Sched()
    for c in c12_corpus(seed, "quick").cases[:30]:
        jit.case(c["label"], c["ops"], c["weight"])
    for c in c14_jitter_corpus(seed, "quick").cases:
        jit.case(c["label"], c["ops"], c["weight"])
    for c in c13_corpus(seed, "quick", [{"mean": m, "zr": False, "zd": False, "back": 0, "mod": 0, "stuck": 0} for m in (1, 2, 3, 15, 16, 1 << 20, (1 << 31) + 5, 1 << 32)]).cases:
        jit.case(c["label"], c["ops"], c["weight"])
    jl = Sched()
    stuck_run_cases(jl, rng, (66000,), 3)
    return {"alg": alg, "api": api, "jit": jit, "far": far_corpus(seed, tier), "jitlong": jl}

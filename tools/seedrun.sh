#!/bin/sh
# usage: tools/seedrun.sh <patch.diff> <check> [<check> ...]   — applies the patch to /repo, runs the quick checks, reverts
p=$1; shift
git -C /repo apply "$p" || exit 2
for c in "$@"; do
  out=$(/verif/tools/vcheck $c quick 2>&1); rc=$?
  echo "$c rc=$rc $(echo "$out" | grep -c '^VIOLATION') violation line(s); $(echo "$out" | grep -m1 -E 'case=|differs|NOTE' | cut -c1-160)"
done
git -C /repo checkout -- . && git -C /repo status --short

#!/bin/sh
# Run once after a fresh restore, offline: builds the conformance harness against /repo
# (dev profile with the serde features) and checks that TLC starts.
set -e
cd "$(dirname "$0")/.."
export CARGO_NET_OFFLINE=true
mkdir -p work evidence replays
(cd harness && cargo build --offline --quiet --bin vh 2>&1 | tail -5)
test -x harness/target/debug/vh
java -cp /opt/veriftools/tla/tla2tools.jar tlc2.TLC -h >/dev/null 2>&1 || true
echo "setup ok"

"""Behaviour generation (GEN): turn the state graph TLC explored (the <<"E",...>>
lines printed by mc/MC_Api.tla) into a transition cover — op sequences that take
every selected edge of the abstract API machine at least once."""
import re, collections
from vlib import ToolError

E_RE = re.compile(r'^<<"E", (\d+), (\d+), (\d+), "(\w+)", (\d+), (\d+), (\d+), (\d+)>>')


def parse_edges(out):
    edges = []
    for ln in out.splitlines():
        m = E_RE.match(ln.strip())
        if m:
            i, h, b, op, n, i2, h2, b2 = m.groups()
            edges.append(((int(i), int(h), int(b)), (op, int(n)), (int(i2), int(h2), int(b2))))
    return edges


def project(edges, block_mode):
    """Drop the block counter: the machine is translation invariant in blk for blk >= 1.
    Returns (init_node, {node: {(op,n): node'}}).  Inconsistent projections are a tool error."""
    g = collections.defaultdict(dict)
    init = None
    for (i, h, b), opn, (i2, h2, b2) in edges:
        if block_mode:
            s = (i, h) if b > 0 else ("init", 0)
            t = (i2, h2)
        else:
            s, t = (0, h), (0, h2)
        if b == 0 and init is None:
            init = s
        if opn in g[s] and g[s][opn] != t:
            raise ToolError("state graph is not translation invariant: %r %r -> %r / %r" % (s, opn, g[s][opn], t))
        g[s][opn] = t
    return init, g


def cover_walks(init, g, select, max_walk=150):
    """Greedy transition cover.  select(node, (op,n)) says whether an edge must be covered.
    Returns a list of walks; each walk is a list of (op, n) starting from the initial node."""
    todo = collections.defaultdict(set)
    for s in g:
        for e in g[s]:
            if select(s, e):
                todo[s].add(e)
    todo = {s: v for s, v in todo.items() if v}
    cache = {}

    def bfs(src):
        prev = {src: None}
        dq = collections.deque([src])
        while dq:
            u = dq.popleft()
            for e, v in g.get(u, {}).items():
                if v not in prev:
                    prev[v] = (u, e)
                    dq.append(v)
        return prev

    def nearest(src):
        """(target node, path) of the nearest node that still has uncovered edges"""
        if src not in cache:
            cache[src] = bfs(src)
        prev = cache[src]
        for node in prev:                 # insertion order = BFS order
            if node in todo:
                out, cur = [], node
                while prev[cur] is not None:
                    u, e = prev[cur]
                    out.append(e)
                    cur = u
                return node, list(reversed(out))
        return None, None

    walks = []
    while todo:
        cur, walk, progressed = init, [], False
        while len(walk) < max_walk or not progressed:      # a walk always covers at least one new edge
            if cur in todo:
                progressed = True
                e = min(todo[cur])
                todo[cur].discard(e)
                if not todo[cur]:
                    del todo[cur]
                walk.append(e)
                cur = g[cur][e]
                continue
            tgt, p = nearest(cur)
            if tgt is None:
                break
            for e in p:
                if cur in todo and e in todo[cur]:
                    todo[cur].discard(e)
                    if not todo[cur]:
                        del todo[cur]
                walk.append(e)
                cur = g[cur][e]
        if not walk:
            raise ToolError("uncoverable edges: %r" % sorted(todo.items())[:3])
        walks.append(walk)
    return walks


def node_paths(init, g):
    """shortest op path from the initial node to every node of the projected graph"""
    import collections
    prev = {init: None}
    dq = collections.deque([init])
    while dq:
        u = dq.popleft()
        for e in sorted(g.get(u, {})):
            v = g[u][e]
            if v not in prev:
                prev[v] = (u, e)
                dq.append(v)
    paths = {}
    for node in prev:
        out, cur = [], node
        while prev[cur] is not None:
            u, e = prev[cur]
            out.append(e)
            cur = u
        paths[node] = list(reversed(out))
    return paths

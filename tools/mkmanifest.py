#!/usr/bin/env python3
"""Regenerates /verif/MANIFEST.json from the table below (single source of truth)."""
import json, os, subprocess
ROOT = os.path.dirname(os.path.dirname(os.path.abspath(__file__)))

TB = ("TLC evaluator + CommunityModules Java overrides; rustc/cargo; rand_core 0.9.5 (dependency, modelled not verified); "
      "my TLA+ transcription of the published algorithms (self-checked by known-answer vectors in MC_Vectors)")

CHECKS = {
    "C01": dict(cat="model_checking", ref="§4 C01", tech="TLA+ reference semantics (Xoshiro.tla, SplitMix64.tla) evaluated by TLC on recorded implementation traces (trace validation); complete GF(2) basis of seeds; part of the corpus again in the release build; start states with structured successors constructed by linear algebra on the code's own step map (inputs only)",
                text="Every recorded event of the real generators (from_seed, native next, state image via serde) must be a step of the TLA+ reference algorithm; the corpus contains every unit-bit seed of all 14 linear generators, so for the linear engine agreement extends to all 2^n states; scramblers and SplitMix64 finalizers are covered on structured classes and random states (a bound).",
                note=TB + "; linearity of the implementation's engine is itself only sampled (random seeds must also agree)"),
    "C04": dict(cat="model_checking", ref="§4 C04", tech="TLA+ xor128 reference evaluated by TLC on recorded traces; complete basis of the 128-bit state",
                text="All 128 unit-bit seeds plus structured and random seeds of XorShiftRng are stepped on the real type and every output and state image is checked by TLC against Marsaglia's xor128 written in TLA+; complete for the linear map by the basis argument.",
                note=TB),
    "C05": dict(cat="model_checking", ref="§4 C05", tech="TLC exhaustive model checking of ApiImpl (BlockRng/BlockRng64/via-next) with refinement to Stream (C05 as a TLA+ spec); transition cover generated from TLC's state graph replayed on all 20 generator types; trace validation against Stream with a native-call twin and against the composed model Rngs (Trace_Full)",
                text="The API machine is explored exhaustively for the real buffer lengths (16, 256) and every transition is checked to refine the one-forward-stream specification; every selected edge of that graph, every fill_bytes length 0..89 (thorough 0..599) of the via-next types and seeded random interleavings are executed on all 20 types and each returned byte is validated by TLC twice: against Stream instantiated with the words of an identically seeded twin driven with native calls, and against the composed executable model Rngs (published algorithm + seeding + projection, no twin).",
                note=TB + "; fill lengths for the 256-word buffers are explored in classes around 0, 1 and 2 blocks, not all lengths; seeds are a corpus"),
    "C12": dict(cat="model_checking", ref="§4 C12", tech="TLA+ specification of the Jitterentropy collection (Jitter.tla) evaluated by TLC on recorded traces of JitterRng over scripted timers, incl. every short measurement-level delta sequence over an alphabet chosen for the stuck test; JitterCollect model-checked (reading counts, termination under fairness); full-state conformance through cfg(rngs_verif) accessors",
                text="Every recorded call of a real JitterRng (next_u32/next_u64/fill_bytes/timer_stats/set_rounds/clone) carries the timer readings it consumed; TLC recomputes priming, every LFSR fold, stuck test, rotation, the stir, the memory-walk position, the pending-half flag, the returned value and the exact number of readings, and rejects the first event that differs.",
                note=TB + "; scripted timers are a corpus (structured delta patterns + random); the stuck test's differences are mod 2^32 (the integer reading is rejected); timer scripts with special first values are constructed by solving the code's own (affine) behaviour, as inputs only"),
    "C13": dict(cat="model_checking", ref="§4 C13", tech="TLC exhaustive model checking of the code-shaped test_timer decision against the outcome relation of the property over all boundary summaries; boundary cases realised as timer scripts; trace validation of real test_timer outcomes against the relation",
                text="The decision (thresholds, lookup table, log2 formula, set_rounds idiom, process-wide cache) is model-checked over every piece of the piecewise-constant estimate; the visited boundary cases become concrete 1601-reading scripts run through the real test_timer and each returned Ok(r)/Err(e) is checked by TLC against the relation recomputed from the readings consumed.",
                note=TB + "; JitterRng::new() with the platform timer is modelled (cache) but only smoke-run"),
    "C14": dict(cat="model_checking", ref="§4 C14", tech="total TLA+ specification (every action defined for every argument, one expected panic) as oracle for recorded traces of an overflow-checked build over hostile corpora (timers incl. stalls of 13 500 readings) + native panic scan over 6000 (thorough 60 000) seeds per type, hits replayed and decided by Trace_Full; far positions (past 2^16 blocks, Hc128Rng past word 2^32 in an optimised overflow-checked build); a process abort is recorded as a panic of the running operation",
                text="All operations run under catch_unwind in the dev (overflow-checked) profile over hostile inputs (timer deltas around +-2^31, 2^32, 2^63, wrap-around, decreasing; extreme seeds; fill lengths 0..17, block size +-1); a recorded panic other than set_rounds(0) is a step the total specification cannot take.",
                note=TB + "; absence of panics is established on the explored corpora, not for all inputs"),
    "C15": dict(cat="model_checking", ref="§4 C15", tech="GF(2) rank / kernel-vector certificate computed by TLC (Gf2.tla) on the pool maps extracted from the code through the cfg(rngs_verif) hook; collisions replayed on the code; six maps incl. the variable-round fold path and one whole collection (next_u64); a non-affine map is decided only by a concrete collision confirmed on the code; special inputs / outputs and fixed points of the extracted maps are probed on the code",
                text="The three pool maps (LFSR fold in the pool for fixed time, in the time for fixed pool, stir) are recorded from the real code on a complete basis plus random triples; TLC checks affinity on the triples and rank 64 of each linear part, which decides bijectivity for all 2^64 values; a rank deficiency is reported only together with a collision reproduced on the real code.",
                note=TB + "; affinity of the code's maps is sampled; a non-affine map is reported as undecided (C12 rejects it)"),
    "C16": dict(cat="model_checking", ref="§4 C16", tech="TLC exhaustive model checking of the hand-out machine JitterApi (tokens, <=3 instances, clone of clone, clone_from, set_rounds as a named stuttering action) with invariants AtMostOnce / PendingIsHighHalfOfOwnValue / FreshOrPendingHalf and a negative control; (thorough) Apalache proves an inductive invariant implying AtMostOnce / PendingIsHighHalfOfOwnValue for an unbounded number of collections; transition cover replayed on real JitterRng instances; Trace_Jitter executes the same plans on concrete pools",
                text="All interleavings of next_u32/next_u64/fill_bytes/clone over up to three instances are explored on the abstract machine; the plans it uses are the ones the trace specification executes on concrete state, so every edge replayed on real JitterRng objects is validated for value, flag and readings consumed.",
                note=TB + "; round counts 1,2,3 (quick) and 64,255 (thorough); fill_bytes(1..4) with a half pending is left open (C05 vs C16 wording)"),
    "C02": dict(cat="model_checking", ref="§4 C02", tech="TLA+ HC-128 in paper form (Hc128.tla) evaluated by TLC on recorded Hc128Rng traces (trace validation)",
                text="Every recorded keystream word of the real Hc128Rng (unit-bit seeds over every key/IV bit, structured and random seeds, 2200-word runs across P/Q phases, refills and the 1024-step wrap) must equal the word computed by Wu's HC-128 written from the paper, independent of the Rust unrolling and index pre-computation.",
                note=TB + "; seeds and positions are a corpus (HC-128 is non-linear)"),
    "C03": dict(cat="model_checking", ref="§4 C03", tech="TLA+ ISAAC / ISAAC-64 in reference shape (Isaac.tla) evaluated by TLC on recorded IsaacRng / Isaac64Rng traces",
                text="Every recorded word of the real generators (unit-bit seeds x the whole first block, structured/random seeds x 3 blocks, long runs) must equal Jenkins' reference isaac()/isaac64() after randinit(TRUE) on the zero-extended seed, consumed from the end of each block; seed_from_u64(0) is validated as the unseeded reference in C09.",
                note=TB + "; seeds and positions are a corpus (ISAAC is non-linear)"),
    "C08": dict(cat="model_checking", ref="§4 C08", tech="TLC model checking of the seeding protocol (Seeding.tla) + TLC-checked bijection certificate of the SplitMix64 finalizer (ALG_Seed) + trace validation of the real constructors against the same operators",
                text="The protocol (zero remap, redraw loop) is explored exhaustively in a small world with a negative control; the certificate shows that for all 2^64 arguments seed_from_u64 of the xoshiro family cannot produce the zero state and yields the 8 arguments with a zero seed word; the real constructors (zero / almost-zero seeds of every size, adversarial u64s, sources with leading zero blocks) are validated by state image, == and outputs.",
                note=TB + "; on the real types seeds/sources are a corpus"),
    "C09": dict(cat="model_checking", ref="§4 C09", tech="TLC model checking of the seeding protocol with fallible sources (Seeding.tla) + trace validation of seed_from_u64 / from_rng / try_from_rng of all 19 seedable types against the documented expansions (SplitMix64, PCG32, ISAAC key layout) written in TLA+",
                text="Error propagation, cursor advance and redraw discipline are model-checked exhaustively in a small world; on the real types every constructor's result is compared by TLC with the generator denoted by the documented expansion (state image and outputs), the source cursor and call log are checked, and fallible sources failing at calls 1..3 (partial, sticky) must yield the error and no generator.",
                note=TB + "; u64 arguments, byte streams and failure positions on the real types are a corpus"),
    "C10": dict(cat="model_checking", ref="§4 C10", tech="TLC model checking of CloneEq (two instances of the API machine, == as the code defines it, negative control) + observational trace monitor Trace_Pair over clone / clone_from / == / lock-step schedules derived from TLC's state graph + pairwise == collision search over 60 000 (thorough 200 000) fresh seeds whose hits are driven in lock-step",
                text="The model shows that the hand-written == (core and index, not the buffer) is a congruence on reachable pairs and fails without the index; on the real types clones are taken at buffer positions from the state graph and driven in lock-step with the original across refills and jumps, almost-equal pairs (one step / one seed bit / one perturbed serde field apart) are compared with ==, and the monitor rejects any observed divergence inside a class formed by clone or == true.",
                note=TB + "; == is only required to be sound, not complete; seeds and histories are a corpus"),
    "C11": dict(cat="model_checking", ref="§4 C11", tech="TLC model checking of CloneEq with Ser/De (negative control: half_used not serialized) + observational trace monitor Trace_Pair over snapshot/restore schedules (bincode, JSON, and the snapshot as a field of a larger bincode record) derived from TLC's state graph",
                text="Snapshots are taken at every sampled (index, half_used) state of IsaacRng/Isaac64Rng and after random histories/jumps of the 16 plain serializable types, restored through bincode and serde_json, and original, pre-snapshot clone and both restored generators are driven in lock-step across a refill; any divergence, failed deserialization or == false is rejected.",
                note=TB + "; harness built with the serde features; seeds and histories are a corpus"),
    "C17": dict(cat="model_checking", ref="§4 C17", tech="trace validation against a TLA+ non-interference specification (Trace_Debug): Debug text as an uninterpreted function of history / public read position (index, half_used from the API machine ApiImpl), learned and enforced by TLC; native scan of the text over millions of seeds whose minority texts are replayed as ordinary cases",
                text="{:?} and {:#?} of the eight state-hiding types are recorded after every operation of walks from TLC's API state graph and random walks, each under several seeds (or timer scripts); TLC rejects two different texts for one (kind, format, history) or one (kind, format, public read position), so any seed- or state-dependent content in the text is detected without fixing the text itself.",
                note=TB + "; leakage is detected as dependence on seed/state across the seeds of the corpus (>= 5 per history)"),
    "C19": dict(cat="model_checking", ref="§4 C19", tech="TLC model checking of the instance machine (Instances.tla: frame property, solo-run results, process-wide JITTER_ROUNDS cache; negative controls with a global and a thread-local cache) + TLC-enumerated interleavings executed on persistent OS threads with background load; for arbitrary operations the events of an instance interleaved with others are compared with its events when run alone in its own process (Trace_Same, with and without background load); every instance validated by Trace_Stream against a solo twin run in a process of its own; pairs built by different constructors from coinciding arguments; Send/Sync static assertion compiled separately",
                text="All interleavings of constructors and outputs of up to three instances over two threads are explored on the model; complete interleavings printed by TLC are executed on real threads (instances moved between persistent workers, unscripted background threads constructing generators of the same kinds from zero seeds) and every instance's stream must equal its solo twin's; a new_with_timer JitterRng must be unaffected by JitterRng::new(); the Send+Sync assertions must compile.",
                note=TB + "; the sequencer enforces the interleaving (no real data race is attempted: all generator state is owned)"),
    "C18": dict(cat="model_checking", ref="§4 C18", tech="trace validation per build configuration: the reference configuration's trace is validated by the TLA+ trace specifications, every other configuration's trace must be the same behaviour (Trace_Same, checked by TLC)",
                text="A fixed corpus (algorithm, seeding, mixed-call and scripted-timer JitterRng histories incl. deltas around 2^31/2^32) is executed by the harness built with opt-level 0/3 x overflow checks+debug assertions on/off x serde on/off; the dev/serde trace is validated against the specification and TLC requires every other trace to coincide with it event by event (values, Ok/Err, panics, readings consumed).",
                note=TB + "; quick: 3 of the 8 configurations (dev+serde, release+serde, opt0-unchecked without serde); thorough: all 8; the corpus is fixed per seed"),
    "C06": dict(cat="model_checking", ref="§4 C06", tech="algebraic certificate checked by TLC (ALG_Engine: Krylov rank, P(T)=0, x^(2^(n/2)) = JUMP(x), x^(2^(3n/4)) = LONG_JUMP(x) in GF(2)[x]/P) + trace validation of the real jump()/long_jump() against the reference jump loop",
                text="For all 2^n states of each of the 5 jump-capable TLA+ engines the published jump polynomials are shown to equal x^(2^(n/2)) and x^(2^(3n/4)) modulo the characteristic polynomial, which TLC itself verifies from the engine's Krylov vectors; the 12 real types' jump functions are bound to the reference jump loop on unit-bit and random states (state image and following outputs), in several orders.",
                note=TB + "; the characteristic polynomial comes from an untrusted helper and is re-checked in TLC; linearity of the implementation's jump is sampled"),
    "C07": dict(cat="model_checking", ref="§4 C07", tech="algebraic certificate checked by TLC (ALG_Engine: Krylov rank n, P(T)e0=0, x^(2^n)=x, x^((2^n-1)/q)#1 for every prime q, exact re-multiplication of the factorisation) + transition matrices of every state-advancing path (native call, the other next_*, fill_bytes(8)) extracted from the code and validated against T resp. T^2; differing paths decided on their own matrix; non-injective steps found among recorded states with related words and replayed; every constructor (incl. Default::default() where a type has it) must not yield the all-zero state (Trace_Alg)",
                text="The single-cycle property is decided for all 2^n-1 non-zero states of the 7 engines by checking that x is primitive modulo the (verified) characteristic polynomial; each of the 15 linear types' transition matrices is recorded from the code on the full basis and must equal the specification's; if it does not, the certificate is run on the extracted matrix and an alarm needs a certificate (non-zero state stepping to zero replayed on the code, a Krylov space of too small dimension, or T^((2^n-1)/q) = I).",
                note=TB + "; published factorisation of 2^n-1 (primality of the large factors is trusted); hints untrusted and re-checked; implementation linearity sampled"),
}

NOT_YET = {}


def main():
    props = [json.loads(l)["id"] for l in open(os.path.join(ROOT, "properties.jsonl"))]
    checks = []
    for pid in props:
        if pid not in CHECKS:
            continue
        c = CHECKS[pid]
        checks.append({
            "property_id": pid,
            "quick_cmd": "tools/vcheck %s quick" % pid,
            "thorough_cmd": "tools/vcheck %s thorough" % pid,
            "evidence_file": "/verif/evidence/%s.json" % pid,
            "replay_cmd_template": "tools/vcheck replay {path}",
            "engine": "tlc-trace",
            "level_claimed": {"category": c["cat"], "text": c["text"], "design_ref": "DESIGN.md " + c["ref"]},
            "level_note": c["note"],
            "technique": c["tech"],
        })
    na = [{"property_id": p, "reason": NOT_YET.get(p, "check not built yet in this revision of /verif (planned: DESIGN.md §4); not claimed")}
          for p in props if p not in CHECKS]
    hooks_commits = subprocess.run(["git", "-C", "/repo", "log", "--format=%H", "--grep=^verif hook"],
                                   stdout=subprocess.PIPE, text=True).stdout.split()
    m = {
        "version": 1,
        "setup_cmd": "tools/setup.sh",
        "hooks": {
            "guard": "cfg(rngs_verif)",
            "enable": "RUSTFLAGS/--cfg rngs_verif via /verif/harness/.cargo/config.toml (build.rustflags); the harness has path dependencies on /repo/rand_*",
            "baseline_off_cmd": "cd /repo && cargo test --workspace --no-fail-fast --offline",
            "source_commits": hooks_commits,
            "add_only": True,
        },
        "engines": [
            {"name": "tlc-trace", "path": "/verif/spec/trace", "serves_properties": sorted(CHECKS),
             "kind_free_text": "TLA+ specification (spec/*.tla) checked by TLC 1.8.0; implementation traces recorded by the Rust harness /verif/harness (vh) are validated against trace specifications that reuse the specification's operators"},
        ],
        "checks": checks,
        "not_applicable": na,
        "notes": "All verdicts are computed by TLC on the TLA+ specification; python (tools/) only generates inputs, shards traces and parses TLC output. See DESIGN.md.",
    }
    with open(os.path.join(ROOT, "MANIFEST.json"), "w") as f:
        json.dump(m, f, indent=1)
    print("MANIFEST.json: %d checks, %d not claimed" % (len(checks), len(na)))


if __name__ == "__main__":
    main()

#!/bin/sh
# usage: [ALT=/tmp/alt2] tools/altrun.sh <patch.diff|none> <check> [<check> ...]
# Runs quick checks against a SCRATCH copy of the repository (a git worktree of /repo's HEAD under $ALT, default
# /tmp/alt, with the patch applied): /repo itself, /verif/evidence and /verif/work are not touched, so this can run
# next to anything else (use different ALT directories for runs in parallel).
ALT=${ALT:-/tmp/alt}
p=$1; shift
if [ ! -d "$ALT" ]; then git -C /repo worktree add -q --detach "$ALT" HEAD || exit 2; fi
git -C "$ALT" checkout -q --detach "$(git -C /repo rev-parse HEAD)" && git -C "$ALT" checkout -- . || exit 2
[ "$p" = "none" ] || git -C "$ALT" apply "$p" || exit 2
mkdir -p "$ALT-evid" "$ALT-work"
for c in "$@"; do
  out=$(VERIF_REPO="$ALT" VERIF_EVID_DIR="$ALT-evid" VERIF_WORK_DIR="$ALT-work" /verif/tools/vcheck $c ${TIER:-quick} 2>&1); rc=$?
  echo "$c rc=$rc $(echo "$out" | grep -c '^VIOLATION') violation line(s); $(echo "$out" | grep -m1 -E 'case=|differs|NOTE|TOOL|gives the same|rank' | cut -c1-200)"
done
git -C "$ALT" checkout -- .

#!/bin/sh
# usage: tools/altrun.sh <patch.diff> <check> [<check> ...]
# Runs quick checks against a SCRATCH copy of the repository (a git worktree of /repo's HEAD under /tmp/alt with the
# patch applied): /repo itself, /verif/evidence and /verif/work are not touched, so this can run next to anything else.
p=$1; shift
if [ ! -d /tmp/alt ]; then git -C /repo worktree add -q --detach /tmp/alt HEAD || exit 2; fi
git -C /tmp/alt checkout -q --detach "$(git -C /repo rev-parse HEAD)" && git -C /tmp/alt checkout -- . || exit 2
[ "$p" = "none" ] || git -C /tmp/alt apply "$p" || exit 2
mkdir -p /tmp/alt-evid /tmp/alt-work
for c in "$@"; do
  out=$(VERIF_REPO=/tmp/alt VERIF_EVID_DIR=/tmp/alt-evid VERIF_WORK_DIR=/tmp/alt-work /verif/tools/vcheck $c quick 2>&1); rc=$?
  echo "$c rc=$rc $(echo "$out" | grep -c '^VIOLATION') violation line(s); $(echo "$out" | grep -m1 -E 'case=|differs|NOTE|TOOL' | cut -c1-200)"
done
git -C /tmp/alt checkout -- .

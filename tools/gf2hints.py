#!/usr/bin/env python3
"""UNTRUSTED hint generator for the algebraic certificates (C06, C07).

Produces, per linear engine, the coefficients of the characteristic polynomial P (found by solving
K_n = sum p_i K_i over GF(2) for the Krylov vectors K_i = T^i e0 of a PYTHON re-implementation of the
engine) and, per prime factor q of 2^n - 1, the cofactor (2^n - 1)/q.  Nothing here is believed:
TLC re-derives the Krylov vectors from the TLA+ specification of the engine, checks rank n and
P(T) e0 = 0, and re-multiplies cofactor * q and the product of all primes to 2^n - 1
(spec/alg/ALG_Engine.tla).  A wrong hint makes those checks fail (a tool error), never a verdict."""
import json, sys

M32, M64 = (1 << 32) - 1, (1 << 64) - 1


def rotl(x, k, w):
    k %= w
    return ((x << k) | (x >> (w - k))) & ((1 << w) - 1) if k else x


def xoro(a, b, c, w):
    def step(s):
        s0, s1 = s
        s1 ^= s0
        return [rotl(s0, a, w) ^ s1 ^ ((s1 << b) & ((1 << w) - 1)), rotl(s1, c, w)]
    return step


def xoshiro4(a, r, w):
    def step(s):
        s = list(s)
        t = (s[1] << a) & ((1 << w) - 1)
        s[2] ^= s[0]; s[3] ^= s[1]; s[1] ^= s[2]; s[0] ^= s[3]; s[2] ^= t
        s[3] = rotl(s[3], r, w)
        return s
    return step


def xoshiro8(s):
    s = list(s)
    t = (s[1] << 11) & M64
    s[2] ^= s[0]; s[5] ^= s[1]; s[1] ^= s[2]; s[7] ^= s[3]; s[3] ^= s[4]; s[4] ^= s[5]; s[0] ^= s[6]; s[6] ^= s[7]
    s[6] ^= t
    s[7] = rotl(s[7], 21, 64)
    return s


def xorshift(s):
    x, y, z, w = s
    t = (x ^ (x << 11)) & M32
    return [y, z, w, (w ^ (w >> 19) ^ t ^ (t >> 8)) & M32]


ENGINES = {  # name: (word bits, words, step)
    "xoroshiro64": (32, 2, xoro(26, 9, 13, 32)),
    "xoroshiro128": (64, 2, xoro(24, 16, 37, 64)),
    "xoroshiro128pp": (64, 2, xoro(49, 21, 28, 64)),
    "xoshiro128": (32, 4, xoshiro4(9, 11, 32)),
    "xoshiro256": (64, 4, xoshiro4(17, 45, 64)),
    "xoshiro512": (64, 8, xoshiro8),
    "xorshift128": (32, 4, xorshift),
}
# published factorisation of 2^n - 1 = (2^32+1)... : Fermat numbers F0..F8
PRIMES = {
    64: [3, 5, 17, 257, 65537, 641, 6700417],
    128: [274177, 67280421310721],
    256: [59649589127497217, 5704689200685129054721],
    512: [1238926361552897, 93461639715357977769163558199606896584051237541638188580280321],
}


def primes_of(n):
    out = list(PRIMES[64])
    for k in (128, 256, 512):
        if n >= k:
            out += PRIMES[k]
    return out


def vec(s, w):
    v = 0
    for i, x in enumerate(s):
        v |= x << (w * i)
    return v


def unvec(v, w, nw):
    return [(v >> (w * i)) & ((1 << w) - 1) for i in range(nw)]


def charpoly(name):
    w, nw, step = ENGINES[name]
    n = w * nw
    k = [1]
    s = unvec(1, w, nw)
    for _ in range(n):
        s = step(s)
        k.append(vec(s, w))
    # solve K_n = sum p_i K_i : eliminate with combination tracking
    basis = {}
    for i in range(n):
        v, c = k[i], 1 << i
        while v:
            t = v.bit_length() - 1
            if t in basis:
                v ^= basis[t][0]; c ^= basis[t][1]
            else:
                basis[t] = (v, c)
                break
    v, c = k[n], 0
    while v:
        t = v.bit_length() - 1
        if t not in basis:
            raise SystemExit("e0 is not cyclic for " + name)
        v ^= basis[t][0]; c ^= basis[t][1]
    return n, c     # P = x^n + sum c_i x^i


def limbs(x, nl):
    return [(x >> (16 * i)) & 0xFFFF for i in range(nl)]


def bits_msb(x):
    return [int(b) for b in bin(x)[2:]]


def matrix_hints(path, out):
    """hints for transition matrices EXTRACTED FROM THE CODE (file: {name: {kind, n, cols:[int], samples:[[int,int]]}})"""
    for name, m in json.load(open(path)).items():
        n, cols = m["n"], [int(c) for c in m["cols"]]

        def apply(v):
            r, i = 0, 0
            while v:
                if v & 1:
                    r ^= cols[i]
                v >>= 1
                i += 1
            return r
        # find a cyclic vector and the polynomial (try a few start vectors)
        found = None
        for e0 in [1, 3, 1 << (n - 1), (1 << n) - 1, 0x9E3779B97F4A7C15 & ((1 << n) - 1)]:
            k = [e0]
            for _ in range(n):
                k.append(apply(k[-1]))
            basis, ok = {}, True
            for i in range(n):
                v, c = k[i], 1 << i
                while v:
                    t = v.bit_length() - 1
                    if t in basis:
                        v ^= basis[t][0]; c ^= basis[t][1]
                    else:
                        basis[t] = (v, c)
                        break
                if not v:
                    ok = False
                    break
            if not ok:
                continue
            v, c = k[n], 0
            while v:
                t = v.bit_length() - 1
                v ^= basis[t][0]; c ^= basis[t][1]
            found = (e0, c)
            break
        N = (1 << n) - 1
        qs = primes_of(n)
        e0, p = found if found else (1, 0)
        out[name] = {"kind": m["kind"], "n": n, "p": limbs(p, n // 16), "e0": limbs(e0, n // 16), "cyclic_vector_found": found is not None,
                     "primes": [limbs(q, n // 16) for q in qs], "cofactors": [limbs(N // q, n // 16) for q in qs],
                     "cols": [limbs(c, n // 16) for c in cols],
                     "samples": [[limbs(int(a), n // 16), limbs(int(b), n // 16)] for a, b in m.get("samples", [])]}


def main():
    out = {}
    for name in ENGINES:
        n, p = charpoly(name)
        N = (1 << n) - 1
        qs = primes_of(n)
        prod = 1
        for q in qs:
            prod *= q
        assert prod == N, name
        out[name] = {"n": n, "p": limbs(p, n // 16),
                     "primes": [limbs(q, n // 16) for q in qs],
                     "cofactors": [limbs(N // q, n // 16) for q in qs],
                     "cofactor_bits": [bits_msb(N // q) for q in qs]}
    if len(sys.argv) > 2:
        matrix_hints(sys.argv[2], out)
    json.dump(out, open(sys.argv[1], "w"))
    print("hints written for", ", ".join(out))


if __name__ == "__main__":
    main()

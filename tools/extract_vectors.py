#!/usr/bin/env python3
"""One-off helper (its output spec/vectors.ndjson is committed): collects the published known-answer
vectors that the repository's own tests quote from the reference implementations (Blackman-Vigna C
sources, dsiutils, Wu's HC-128 paper, Jenkins' rand.c / isaac64.c, Marsaglia's xor128) so that the TLA+
transcriptions can be checked against them without running any Rust code (spec/mc/MC_Vectors.tla)."""
import re, json, glob, os, sys
R = "/repo"
out = []


def limbs(x, n):
    return [(x >> (16 * i)) & 0xFFFF for i in range(n)]


def ints(txt):
    return [int(t.replace("_", ""), 0) for t in re.findall(r"0x[0-9a-fA-F_]+|\d[\d_]*", txt)]


WB = {"Xoroshiro64Star": 4, "Xoroshiro64StarStar": 4, "Xoshiro128Plus": 4, "Xoshiro128PlusPlus": 4, "Xoshiro128StarStar": 4}
for f in sorted(glob.glob(R + "/rand_xoshiro/src/xo*.rs")):
    s = open(f).read()
    kind = re.search(r"pub struct (\w+)", s).group(1)
    m = re.search(r"fn reference\(\)(.*?)\n    }\n", s, re.S)
    body = m.group(1)
    seed = ints(re.search(r"from_seed\((?:Seed512\()?\s*\[(.*?)\]", body, re.S).group(1))
    exp = ints(re.search(r"let expected(?:[^=]*)=\s*\[(.*?)\];", body, re.S).group(1))
    wl = 2 if WB.get(kind) == 4 else 4
    out.append({"kind": kind, "seed": seed, "skip": 0, "expect": [limbs(x, wl) for x in exp], "src": os.path.basename(f) + " reference"})
s = open(R + "/rand_xoshiro/src/splitmix64.rs").read()
m = re.search(r"fn reference\(\)(.*?)\n    }\n", s, re.S).group(1)
x = ints(re.search(r"seed_from_u64\((\d+)\)", m).group(1))[0]
exp = ints(re.search(r"\[u64; 50\] = \[(.*?)\];", m, re.S).group(1))
out.append({"kind": "SplitMix64", "seed": list(x.to_bytes(8, "little")), "skip": 0, "expect": [limbs(v, 4) for v in exp], "src": "splitmix64.c"})
m = re.search(r"fn next_u32\(\) \{(.*?)\n    }\n", s, re.S).group(1)
exp = ints(re.search(r"\[u32; 100\] = \[(.*?)\];", m, re.S).group(1))
out.append({"kind": "SplitMix64", "seed": list((10).to_bytes(8, "little")), "skip": 0, "mix32": True, "expect": [limbs(v, 2) for v in exp], "src": "dsiutils"})
s = open(R + "/rand_hc/src/hc128.rs").read()
for name in ("a", "b", "c"):
    m = re.search(r"fn test_hc128_true_values_%s\(\)(.*?)\n    }\n" % name, s, re.S).group(1)
    seed = ints(re.sub(r"//.*", "", re.search(r"let seed = \[(.*?)\];", m, re.S).group(1)))
    exp = ints(re.search(r"let expected = \[(.*?)\];", m, re.S).group(1))
    out.append({"kind": "Hc128Rng", "seed": seed, "skip": 0, "expect": [limbs(v, 2) for v in exp], "src": "HC-128 paper, test vector " + name})
for fn, kind, wl, t in (("isaac.rs", "IsaacRng", 2, "test_isaac_true_values_32"), ("isaac64.rs", "Isaac64Rng", 4, "test_isaac64_true_values_64")):
    s = open(R + "/rand_isaac/src/" + fn).read()
    m = re.search(r"fn %s\(\)(.*?)\n    }\n" % t, s, re.S).group(1)
    seeds = re.findall(r"let seed = \[(.*?)\];", m, re.S)
    exps = re.findall(r"let expected = \[(.*?)\];", m, re.S)
    out.append({"kind": kind, "seed": ints(seeds[0]), "skip": 0, "expect": [limbs(v, wl) for v in ints(exps[0])], "src": fn + " " + t})
    out.append({"kind": kind, "seed": ints(seeds[1]), "skip": 10000, "expect": [limbs(v, wl) for v in ints(exps[1])], "src": fn + " " + t + " (after 10000)"})
    t2 = "test_isaac_new_uninitialized" if kind == "IsaacRng" else "test_isaac64_new_uninitialized"
    m = re.search(r"fn %s\(\)(.*?)\n    }\n" % t2, s, re.S).group(1)
    exp = ints(re.search(r"\[u(?:32|64); 16\] = \[(.*?)\];", m, re.S).group(1))
    out.append({"kind": kind, "u64": limbs(0, 4), "skip": 0, "expect": [limbs(v, wl) for v in exp], "src": "reference generator used unseeded"})
s = open(R + "/rand_xorshift/tests/mod.rs").read()
m = re.search(r"fn test_xorshift_true_values\(\)(.*?)\n}\n", s, re.S).group(1)
seed = ints(re.search(r"let seed = \[(.*?)\];", m, re.S).group(1))
exp = ints(re.search(r"\[u32; 9\] = \[(.*?)\];", m, re.S).group(1))
out.append({"kind": "XorShiftRng", "seed": seed, "skip": 0, "expect": [limbs(v, 2) for v in exp], "src": "xorshift tests"})
with open(sys.argv[1], "w") as f:
    for v in out:
        f.write(json.dumps(v) + "\n")
print(len(out), "vectors")

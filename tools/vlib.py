"""Orchestration for /verif: builds the harness from /repo's working tree, runs
schedules on the real code, shards traces, runs TLC, collects evidence.

No verdict is computed here.  Python generates inputs (schedules), moves files
and parses TLC's own output (accepted / first unmatched event / invariant
violated); every comparison of an implementation value with a specified value
is evaluated by TLC on the TLA+ specification.
"""
import json, os, subprocess, sys, time, hashlib, shutil, random, re, concurrent.futures

ROOT = os.path.dirname(os.path.dirname(os.path.abspath(__file__)))
SPEC = os.path.join(ROOT, "spec")
HARNESS = os.path.join(ROOT, "harness")
WORK = os.environ.get("VERIF_WORK_DIR") or os.path.join(ROOT, "work")
REPLAYS = os.path.join(ROOT, "replays")
EVID = os.environ.get("VERIF_EVID_DIR") or os.path.join(ROOT, "evidence")
TLA_CP = "/opt/veriftools/tla/tla2tools.jar:/opt/veriftools/tla/CommunityModules-deps.jar"
NCPU = 16


class ToolError(Exception):
    pass


def seed_from_env():
    try:
        return int(os.environ.get("VERIF_SEED", "20261002"))
    except ValueError:
        return 20261002


# ---------------------------------------------------------------- words
def limbs(x, n):
    return [(x >> (16 * i)) & 0xFFFF for i in range(n)]


def u32(x):
    return limbs(x & 0xFFFFFFFF, 2)


def u64(x):
    return limbs(x & 0xFFFFFFFFFFFFFFFF, 4)


def from_limbs(l):
    return sum(v << (16 * i) for i, v in enumerate(l))


# ---------------------------------------------------------------- harness
_built = {}


def _harness_dir():
    """The registered checks always build /verif/harness against /repo.  For experiments on a scratch copy of
    the repository (VERIF_REPO=<dir>, used by tools/altrun.sh so that /repo itself stays untouched) a copy of
    the harness with rewritten path dependencies is kept under work/."""
    alt = os.environ.get("VERIF_REPO")
    if not alt:
        return HARNESS
    d = os.path.join(WORK, "harness-alt")
    os.makedirs(os.path.join(d, "src", "bin"), exist_ok=True)
    os.makedirs(os.path.join(d, ".cargo"), exist_ok=True)
    for root, _, files in os.walk(os.path.join(HARNESS, "src")):
        for f in files:
            src = os.path.join(root, f)
            dst = os.path.join(d, os.path.relpath(src, HARNESS))
            if not os.path.exists(dst) or open(src).read() != open(dst).read():
                shutil.copy(src, dst)
    toml = open(os.path.join(HARNESS, "Cargo.toml")).read().replace('path = "/repo/', 'path = "%s/' % alt.rstrip("/"))
    if not os.path.exists(os.path.join(d, "Cargo.toml")) or open(os.path.join(d, "Cargo.toml")).read() != toml:
        open(os.path.join(d, "Cargo.toml"), "w").write(toml)
    shutil.copy(os.path.join(HARNESS, "Cargo.lock"), os.path.join(d, "Cargo.lock"))
    shutil.copy(os.path.join(HARNESS, ".cargo", "config.toml"), os.path.join(d, ".cargo", "config.toml"))
    return d


def build_harness(profile="dev", serde=True):
    """cargo build the harness against /repo's current working tree."""
    global HARNESS
    HARNESS_DIR = _harness_dir()
    key = (profile, serde, HARNESS_DIR)
    if key in _built:
        return _built[key]
    tdir = "target" if serde else "target-noserde"
    cmd = ["cargo", "build", "--offline", "--quiet", "--bin", "vh", "--target-dir", tdir]
    if profile != "dev":
        cmd += ["--profile", profile]
    if not serde:
        cmd += ["--no-default-features"]
    env = dict(os.environ, CARGO_NET_OFFLINE="true", VH_PROFILE=profile)
    t0 = time.time()
    p = subprocess.run(cmd, cwd=HARNESS_DIR, env=env, stdout=subprocess.PIPE, stderr=subprocess.STDOUT, text=True)
    if p.returncode != 0:
        raise ToolError("cargo build of the harness failed (profile=%s serde=%s):\n%s" % (profile, serde, p.stdout[-4000:]))
    sub = "debug" if profile == "dev" else profile
    path = os.path.join(HARNESS_DIR, tdir, sub, "vh")
    if not os.path.exists(path):
        raise ToolError("harness binary missing: " + path)
    _built[key] = path
    return path


def workdir(name):
    d = os.path.join(WORK, name)
    shutil.rmtree(d, ignore_errors=True)
    os.makedirs(d, exist_ok=True)
    return d


def write_ndjson(path, items):
    with open(path, "w") as f:
        for it in items:
            f.write(json.dumps(it, separators=(",", ":")) + "\n")


def read_ndjson(path):
    out = []
    with open(path) as f:
        for line in f:
            line = line.strip()
            if line:
                out.append(json.loads(line))
    return out


def drive(binpath, sched_path, trace_path, timeout=1800):
    """Run the harness over a schedule.  If the code under test kills the process (a non-unwinding panic -> SIGABRT,
    any other signal), that is data, not a tool failure: the fatal op gets a synthetic event with a "panic" field, the
    rest of its case is dropped, and the run resumes at the next case."""
    lines = [ln for ln in open(sched_path).read().split("\n") if ln.strip()]
    pos, out, first = 0, [], True
    while pos < len(lines):
        sp = sched_path if first else sched_path + ".part"
        tp = trace_path if first else trace_path + ".part"
        if not first:
            with open(sp, "w") as f:
                f.write("\n".join(lines[pos:]) + "\n")
        p = subprocess.run([binpath, "drive", "--in", sp, "--out", tp],
                           stdout=subprocess.PIPE, stderr=subprocess.STDOUT, text=True, timeout=timeout)
        if p.returncode == 0 and first:
            return
        got = []
        if os.path.exists(tp):
            raw = open(tp).read()
            got = [ln for ln in raw.split("\n")[:-1] if ln.strip()] if not raw.endswith("\n") else [ln for ln in raw.split("\n") if ln.strip()]
        out += got
        if p.returncode == 0:
            break
        if p.returncode > 0:
            raise ToolError("harness drive failed (%d): %s" % (p.returncode, p.stdout[-2000:]))
        bad = pos + len(got)
        if bad >= len(lines):
            raise ToolError("harness killed by signal %d after the last op: %s" % (-p.returncode, p.stdout[-1000:]))
        op = json.loads(lines[bad])
        ev = dict(op)
        ev["e"] = op.get("op")
        ev["panic"] = "the process was killed by signal %d while executing this operation: %s" % (-p.returncode, (p.stdout or "")[-300:].replace("\n", " "))
        ev["aborted"] = True
        out.append(json.dumps(ev))
        nxt = bad + 1
        while nxt < len(lines) and json.loads(lines[nxt]).get("op") != "reset":
            nxt += 1
        pos, first = nxt, False
    with open(trace_path, "w") as f:
        f.write("\n".join(out) + "\n")


# ---------------------------------------------------------------- cases
class Sched:
    """A schedule: a list of cases, each a list of ops, first op a reset."""

    def __init__(self):
        self.cases = []

    def case(self, label, ops, weight=None):
        cid = len(self.cases) + 1
        self.cases.append({"id": cid, "label": label, "ops": ops, "weight": weight or len(ops)})
        return cid

    def lines(self, cases=None):
        out = []
        for c in (cases if cases is not None else self.cases):
            out.append({"op": "reset", "case": c["id"], "label": c["label"]})
            out.extend(c["ops"])
        return out

    def n_ops(self):
        return sum(len(c["ops"]) for c in self.cases)


def split_events(events):
    """events -> list of (case_id, [events incl. the reset])"""
    cases, cur = [], None
    for ev in events:
        if ev.get("e") == "reset":
            cur = (ev.get("case"), [ev])
            cases.append(cur)
        else:
            if cur is None:
                cur = (None, [])
                cases.append(cur)
            cur[1].append(ev)
    return cases


def shard_cases(cases, nshards, weight=lambda evs: len(evs)):
    """greedy balance of cases into shards"""
    nshards = max(1, min(nshards, len(cases)))
    shards = [[] for _ in range(nshards)]
    loads = [0] * nshards
    for c in sorted(cases, key=lambda c: -weight(c[1])):
        i = loads.index(min(loads))
        shards[i].append(c)
        loads[i] += weight(c[1])
    for s in shards:
        s.sort(key=lambda c: (c[0] is None, c[0]))
    return [s for s in shards if s]


# ---------------------------------------------------------------- TLC
def java_opts(xmx="3g", deque=False, extra=()):
    o = ["-XX:+UseParallelGC", "-XX:ParallelGCThreads=2", "-Xss1g", "-Xmx" + xmx,
         "-DTLA-Library=" + SPEC + ":" + os.path.join(SPEC, "trace") + ":" + os.path.join(SPEC, "mc") + ":" + os.path.join(SPEC, "alg")]
    if deque:
        o.append("-Dtlc2.tool.queue.IStateQueue=StateDeque")
    return o + list(extra)


def run_tlc(module_path, cfg_path, metadir, env=None, workers=1, timeout=1800, xmx="3g",
            deque=False, extra_args=(), coverage=False):
    """Run TLC; returns dict(rc, out, states, distinct, ok, wall)."""
    os.makedirs(metadir, exist_ok=True)
    cmd = ["java"] + java_opts(xmx, deque) + ["-cp", TLA_CP, "tlc2.TLC", "-workers", str(workers),
                                                "-metadir", metadir, "-cleanup", "-noGenerateSpecTE"]
    if coverage:
        cmd += ["-coverage", "1"]
    cmd += list(extra_args) + ["-config", cfg_path, module_path]
    e = dict(os.environ)
    e.pop("JAVA_TOOL_OPTIONS", None)
    if env:
        e.update(env)
    t0 = time.time()
    try:
        p = subprocess.run(cmd, cwd=os.path.dirname(module_path), env=e, stdout=subprocess.PIPE,
                           stderr=subprocess.STDOUT, text=True, timeout=timeout)
        out, rc = p.stdout, p.returncode
    except subprocess.TimeoutExpired as ex:
        out = (ex.stdout or b"").decode("utf-8", "replace") if isinstance(ex.stdout, bytes) else (ex.stdout or "")
        rc = -9
    wall = time.time() - t0
    shutil.rmtree(metadir, ignore_errors=True)
    res = {"rc": rc, "out": out, "wall": wall, "states": 0, "distinct": 0}
    m = re.search(r"(\d+) states generated, (\d+) distinct states found", out)
    if m:
        res["states"], res["distinct"] = int(m.group(1)), int(m.group(2))
    res["completed"] = "Model checking completed. No error has been found." in out
    return res


def run_apalache(module_path, args, outdir, timeout=3000):
    """apalache-mc check ...; returns dict(rc, out, outcome, wall).  outcome: NoError | Error | other"""
    os.makedirs(outdir, exist_ok=True)
    cmd = ["apalache-mc", "check", "--out-dir=" + outdir] + list(args) + [os.path.basename(module_path)]
    e = dict(os.environ)
    e.pop("JAVA_TOOL_OPTIONS", None)
    t0 = time.time()
    try:
        p = subprocess.run(cmd, cwd=os.path.dirname(module_path), env=e, stdout=subprocess.PIPE,
                           stderr=subprocess.STDOUT, text=True, timeout=timeout)
        out, rc = p.stdout, p.returncode
    except subprocess.TimeoutExpired as ex:
        out, rc = "timeout", -9
    m = re.search(r"The outcome is: (\w+)", out)
    shutil.rmtree(outdir, ignore_errors=True)
    return {"rc": rc, "out": out, "outcome": m.group(1) if m else "none", "wall": time.time() - t0}


def extract_tuples(out, tag):
    """PrintT output of <<"TAG", ...>>, possibly pretty-printed over several lines, as one-line strings"""
    res, cur, depth = [], None, 0
    for ln in out.splitlines():
        t = ln.strip()
        if cur is None:
            if t.startswith('<<"%s"' % tag) or t.startswith('<< "%s"' % tag):
                cur, depth = [], 0
            else:
                continue
        cur.append(t)
        depth += t.count("<<") - t.count(">>")
        if depth <= 0:
            res.append(" ".join(cur))
            cur = None
    return res


def parse_trace_result(res, n_events):
    """classify a trace-validation run from TLC's own output."""
    out = res["out"]
    mism = extract_tuples(out, "MISMATCH")
    um = re.search(r'<<"UNMATCHED", (\d+), (\d+)(?:, \d+)*>>', out)
    if res["completed"] and not um:
        return {"status": "accepted", "mismatch": mism}
    if um:
        return {"status": "rejected", "at": int(um.group(1)), "len": int(um.group(2)), "mismatch": mism}
    return {"status": "error", "mismatch": mism}


def validate_cases(tag, spec, cfg, cases, nshards=14, timeout=1800, xmx="3g", deque=False, env_extra=None,
                   max_reject_rounds=6, weight=lambda evs: len(evs)):
    """Validate recorded cases against a trace spec.  Returns
    dict(accepted_cases, rejected=[{case, at_event, mismatch, events}], states, shards, events).
    A rejected case is removed and its shard re-validated so the rest is still checked."""
    wd = workdir("tlc-" + tag)
    spec_path = os.path.join(SPEC, "trace", spec)
    cfg_path = os.path.join(SPEC, "trace", cfg)
    shards = shard_cases(cases, nshards, weight)
    rejected, errors = [], []
    tot_states, tot_events, accepted, nruns = 0, 0, 0, 0

    def run_shard(i_shard):
        i, shard = i_shard
        rej = []
        states = 0
        runs = 0
        acc = 0
        evcount = 0
        err = None
        cur = list(shard)
        for rnd in range(max_reject_rounds):
            if not cur:
                break
            evs = [ev for c in cur for ev in c[1]]
            path = os.path.join(wd, "shard%d_%d.ndjson" % (i, rnd))
            write_ndjson(path, evs)
            env = {"TRACE": path}
            if env_extra:
                env.update(env_extra)
            r = run_tlc(spec_path, cfg_path, os.path.join(wd, "meta%d_%d" % (i, rnd)), env=env,
                        timeout=timeout, xmx=xmx, deque=deque)
            pr = parse_trace_result(r, len(evs))
            if pr["status"] == "error" and r["rc"] != -9:
                # a JVM that could not start or ran out of memory on a busy machine: once more, alone
                time.sleep(5)
                r = run_tlc(spec_path, cfg_path, os.path.join(wd, "meta%d_%dr" % (i, rnd)), env=env, timeout=timeout, xmx=xmx, deque=deque)
                pr = parse_trace_result(r, len(evs))
            runs += 1
            states += r["states"]
            if pr["status"] == "accepted":
                acc += len(cur)
                evcount += len(evs)
                os.remove(path)
                cur = []
                break
            if pr["status"] == "error":
                err = "TLC error on shard %d (rc=%s):\n%s" % (i, r["rc"], r["out"][-3000:])
                break
            # rejected: locate the case containing event number `at` (1-based)
            at = pr["at"]
            k = 0
            bad = None
            for ci, c in enumerate(cur):
                if k + len(c[1]) >= at:
                    bad = ci
                    break
                k += len(c[1])
            if bad is None:
                err = "cannot locate rejected event %d" % at
                break
            c = cur[bad]
            rej.append({"case": c[0], "at_event": at - k, "mismatch": pr["mismatch"], "events": c[1]})
            acc += bad
            evcount += k
            cur = cur[bad + 1:]
        # more than max_reject_rounds rejected cases in one shard: the rest of the shard stays
        # unvalidated (the check fails anyway, with the rejections found so far)
        return rej, states, runs, acc, evcount, err

    with concurrent.futures.ThreadPoolExecutor(max_workers=min(14, len(shards) or 1)) as ex:
        for rej, states, runs, acc, evcount, err in ex.map(run_shard, list(enumerate(shards))):
            rejected += rej
            tot_states += states
            nruns += runs
            accepted += acc
            tot_events += evcount
            if err:
                errors.append(err)
    if errors:
        raise ToolError("\n".join(errors))
    return {"accepted_cases": accepted, "rejected": rejected, "states": tot_states, "tlc_runs": nruns,
            "events": tot_events, "shards": len(shards)}


# ---------------------------------------------------------------- findings / verdict
def load_known_findings():
    out = []
    p = os.path.join(ROOT, "known_findings.txt")
    if os.path.exists(p):
        for line in open(p):
            line = line.strip()
            if line and not line.startswith("#"):
                out.append(line)
    return out


def write_replay(prop, payload):
    os.makedirs(REPLAYS, exist_ok=True)
    blob = json.dumps(payload, sort_keys=True)
    h = hashlib.sha256(blob.encode()).hexdigest()[:12]
    path = os.path.join(REPLAYS, "%s-%s.json" % (prop, h))
    with open(path, "w") as f:
        f.write(json.dumps(payload, indent=1))
    return path


def write_evidence(prop, tier, seed, level, coverage, assumptions, wall, violations):
    os.makedirs(EVID, exist_ok=True)
    ev = {"property_id": prop, "tier": tier, "seed": seed, "level": level, "coverage": coverage,
          "assumptions": assumptions, "wall_s": round(wall, 2), "violations": violations}
    with open(os.path.join(EVID, prop + ".json"), "w") as f:
        json.dump(ev, f, indent=1)
    return ev

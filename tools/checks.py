"""Per-property checks.  Each check_<ID>(tier, seed) returns 0 (held) or 1
(VIOLATION printed); ToolError -> exit 2 in vcheck."""
import json, os, time, subprocess, sys, functools
import vlib, corpora
from vlib import ToolError


def _signature(label, ev, mism):
    what = "unexplained"
    if ev is not None and "panic" in ev:
        what = "panic:" + str(ev["panic"])[:120]
    elif mism:
        # <<"MISMATCH", l, "what", ...>>
        parts = mism[0].split(",")
        if len(parts) > 2:
            what = parts[2].strip().strip('"')
    return "%s|%s|%s" % (label, ev.get("e") if ev else "?", what)


def report_rejections(prop, rejected, sched, extra=None):
    """Print VIOLATION / KNOWN-FINDING lines for rejected cases. Returns #violations (unlisted)."""
    known = vlib.load_known_findings()
    nviol = 0
    by_id = {c["id"]: c for c in sched.cases} if sched else {}
    for r in rejected:
        case = by_id.get(r["case"])
        label = case["label"] if case else str(r["case"])
        evs = r["events"]
        bad = evs[r["at_event"] - 1] if 0 < r["at_event"] <= len(evs) else None
        sig = _signature(label, bad or {}, r["mismatch"])
        payload = {"property": prop, "case": label, "signature": sig,
                   "schedule": ([{"op": "reset"}] + case["ops"]) if case else None,
                   "rejected_event_index": r["at_event"], "rejected_event": bad,
                   "spec_diagnostics": r["mismatch"][:5]}
        if extra:
            payload.update(extra)
        listed = [k for k in known if k.startswith("finding:") and ("property=%s " % prop) in k and sig_key(k) and sig_key(k) in sig]
        if listed:
            print("KNOWN-FINDING: property=%s %s" % (prop, listed[0].split(" ", 2)[2] if listed[0].count(" ") >= 2 else sig))
            continue
        nviol += 1
        if nviol > 5:
            continue
        path = vlib.write_replay(prop, payload)
        print("VIOLATION property=%s replay=%s" % (prop, path))
        print("  case=%r event#%d %s" % (label, r["at_event"], json.dumps(bad)[:300] if bad else ""))
        for m in r["mismatch"][:2]:
            print("  " + m[:700])
    if nviol > 5:
        print("  ... and %d more rejected cases (not listed)" % (nviol - 5))
    return nviol


def sig_key(line):
    # finding: property=Cxx key=<text up to ' :: '> :: description
    if "key=" not in line:
        return None
    k = line.split("key=", 1)[1]
    return k.split(" :: ", 1)[0].strip()


def sample_events(cases, k=3):
    out = []
    for cid, evs in cases[:: max(1, len(cases) // k)][:k]:
        for ev in evs[1:3]:
            s = json.dumps(ev)
            out.append(json.loads(s) if len(s) < 1500 else {"e": ev.get("e"), "truncated": s[:600]})
    return out


def run_trace(tag, sched, spec, cfg, *, serde=True, profile="dev", nshards=14, timeout=3000, deque=False, weight=None):
    """record the schedule on the real code and validate the trace; returns (events, cases, result)"""
    binp = vlib.build_harness(profile, serde)
    wd = vlib.workdir("run-" + tag)
    sp, tp = os.path.join(wd, "sched.ndjson"), os.path.join(wd, "trace.ndjson")
    vlib.write_ndjson(sp, sched.lines())
    vlib.drive(binp, sp, tp)
    events = vlib.read_ndjson(tp)
    cases = vlib.split_events(events)
    wfn = weight or default_weight
    res = vlib.validate_cases(tag, spec, cfg, cases, nshards=nshards, timeout=timeout, deque=deque, weight=wfn)
    import shutil
    shutil.rmtree(wd, ignore_errors=True)
    return events, cases, res


def default_weight(evs):
    return sum(max(1, ev.get("n", 1) if isinstance(ev.get("n", 1), int) else 1) for ev in evs)


def base_cov(parts, rule, spec_names):
    """coverage record from one or more (events, cases, res) runs"""
    states = sum(r["states"] for _, _, r in parts)
    runs = sum(r["tlc_runs"] for _, _, r in parts)
    allcases = [c for _, cs, _ in parts for c in cs]
    return {"states": max(1, states), "transitions": max(1, states - runs),
            "traces_validated_against_impl": sum(r["accepted_cases"] for _, _, r in parts),
            "samples": sample_events(allcases),
            "events_validated": sum(r["events"] for _, _, r in parts),
            "events_recorded": sum(len(e) for e, _, _ in parts),
            "cases": len(allcases), "rejected_cases": sum(len(r["rejected"]) for _, _, r in parts), "tlc_runs": runs,
            "rule": rule, "exhaustive": False,
            "checker_cmd": "; ".join("tlc -config spec/trace/%s.cfg spec/trace/%s.tla (TRACE=<shard>)" % (n, n) for n in spec_names)}


def trace_check(prop, tier, seed, sched, spec, cfg, *, level="model_checking", rule, assumptions,
                serde=True, profile="dev", nshards=14, timeout=3000, deque=False, weight=None, extra_cov=None,
                distinct_fn=None, second_spec=None, second_filter=None, extra_runs=(), release_every=0):
    t0 = time.time()
    events, cases, res = run_trace(prop, sched, spec, cfg, serde=serde, profile=profile, nshards=nshards,
                                   timeout=timeout, deque=deque, weight=weight)
    nviol = report_rejections(prop, res["rejected"], sched)
    parts = [(events, cases, res)]
    names = [spec.replace(".tla", "")]
    if second_spec:
        # the same recorded executions, validated a second time against another trace specification
        cases2 = [c for c in cases if second_filter is None or second_filter(c[1])]
        if tier == "quick":
            cases2 = cases2[::3]          # quick: every third recorded case; thorough: all of them
        res2 = vlib.validate_cases(prop + "-2", second_spec + ".tla", second_spec + ".cfg", cases2, nshards=nshards, timeout=timeout,
                                   weight=weight or default_weight)
        nviol += report_rejections(prop, res2["rejected"], sched)
        parts.append(([], cases2, res2))
        names.append(second_spec)
    if release_every:
        # the statement has no build profile in it: every release_every-th case is recorded again with the optimised
        # build (no overflow checks, no debug assertions) and validated against the same specification
        sub = vlib.Sched()
        sub.cases = sched.cases[::release_every]
        ev4, cs4, res4 = run_trace(prop + "-release", sub, spec, cfg, serde=serde, profile="release", nshards=nshards, timeout=timeout, deque=deque, weight=weight)
        nviol += report_rejections(prop, res4["rejected"], sub)
        parts.append((ev4, cs4, res4))
        names.append(spec.replace(".tla", "") + " (release build)")
        events = events + ev4
    for xr in extra_runs:
        # a further corpus recorded and validated against its own trace specification (optionally in another build profile)
        tag, sched2, spec2, w2 = xr[:4]
        ev3, cs3, res3 = run_trace(tag, sched2, spec2 + ".tla", spec2 + ".cfg", serde=serde, profile=xr[4] if len(xr) > 4 else profile, timeout=timeout, weight=w2)
        nviol += report_rejections(prop, res3["rejected"], sched2)
        parts.append((ev3, cs3, res3))
        names.append(spec2)
        events = events + ev3
    cov = base_cov(parts, rule, names)
    cov["events_recorded"] = len(events)
    if extra_cov:
        cov.update(extra_cov)
    vlib.write_evidence(prop, tier, seed, level, cov, assumptions, time.time() - t0, nviol)
    return 1 if nviol else 0


COMMON_ASSUME = ["TLC's evaluator and the CommunityModules Java overrides (Bitwise, SequencesExt, Json, IOUtils)",
                 "rustc/cargo; the harness only calls the public API (plus the cfg(rngs_verif) JitterRng accessors)",
                 "my transcription of the published algorithms into TLA+ (self-checked against known-answer vectors in spec/mc/MC_Vectors)"]


def panic_candidates(S, kinds, n, label, outputs=4):
    """Value properties say what every call returns; a call that panics returns nothing.  The native panic scan of C14
    (counter seeds built three ways and driven for a few outputs) proposes seeds; each hit becomes an ordinary case."""
    binp = vlib.build_harness("o3chk", True)       # optimised, with overflow checks and debug assertions: many seeds per second
    wd = vlib.workdir("scan-" + label)
    sp, tp = os.path.join(wd, "scan.s"), os.path.join(wd, "scan.t")
    vlib.write_ndjson(sp, [{"op": "reset"}] + [{"op": "panic_scan", "kind": kd, "n": n, "seed_len": corpora.SEEDLEN[kd], "outputs": outputs, "threads": 14} for kd in kinds])
    vlib.drive(binp, sp, tp, timeout=3000)
    found = 0
    for e in vlib.read_ndjson(tp):
        for f in e.get("found", []) if e.get("e") == "panic_scan" else []:
            kd = e["kind"]
            first = {"op": "seed_from_u64", "g": 1, "kind": kd, "x": f["x"]} if f["stage"] == "seed_from_u64" else {"op": "from_seed", "g": 1, "kind": kd, "seed": f["seed"]}
            S.case("%s %s k=%d (found by the panic scan)" % (kd, f["stage"], f["k"]), [first, {"op": corpora.native_op(kd), "g": 1, "n": 8}])
            found += 1
    import shutil
    shutil.rmtree(wd, ignore_errors=True)
    return found


def check_C01(tier, seed):
    import random
    S = corpora.c01_corpus(seed, tier)
    # states whose SUCCESSOR is a structured state (a special case on the new state is invisible from unit, structured
    # and random start states)
    rng = random.Random(seed * 131 + 1)
    for kind in corpora.XO:
        nat = corpora.native_op(kind)
        targets = corpora.structured_seeds(kind, rng)
        if tier == "quick":
            targets = rng.sample(targets, 6)
        ops = []
        for t, sd in preimage_seeds(kind, nat, targets):
            ops += [{"op": "from_seed", "g": 1, "kind": kind, "seed": sd}, {"op": nat, "g": 1, "n": 3}]
        if ops:
            S.case("%s states stepping onto structured states" % kind, ops)
    # states reached otherwise than by seeding: after jump / long_jump, and restored from a serde image
    for kind in list(corpora.XO) + ["SplitMix64"]:
        nat = corpora.native_op(kind)
        ops = []
        for r in range(2 if tier == "quick" else 12):
            sd = [rng.getrandbits(8) | (1 if r == 0 else 0) for _ in range(corpora.SEEDLEN[kind])]
            if kind in corpora.XO_JUMP:
                for j in ("jump", "long_jump"):
                    ops += [{"op": "from_seed", "g": 1, "kind": kind, "seed": sd}, {"op": nat, "g": 1, "n": 1}, {"op": j, "g": 1}, {"op": nat, "g": 1, "n": 3}]
            ops += [{"op": "de_image", "kind": kind, "image": sd, "to": 2}, {"op": nat, "g": 2, "n": 3}]
        S.case("%s states reached by jumps and from serde images" % kind, ops)
    panic_candidates(S, list(corpora.XO) + ["SplitMix64"], 400000 if tier == "quick" else 8000000, "C01")
    return trace_check("C01", tier, seed, S, "Trace_Alg.tla", "Trace_Alg.cfg", release_every=3,
                       rule="for each of the 14 linear generators: every unit-bit seed (complete GF(2) basis of the state space and of the seed decoding) stepped twice; structured scrambler classes (carry chains of every length, multiplier wrap, all-ones, high bits); random seeds x K consecutive native outputs with the full state image compared after every call; SplitMix64 counters around the 2^64 wrap with both finalizers. One TLC state per recorded event; distinct = distinct events",
                       assumptions=COMMON_ASSUME + ["agreement on a basis extends to all states for the GF(2)-linear engine only; the non-linear output scramblers are covered by structured classes and random states, a bound not a proof"])


def check_C04(tier, seed):
    S = corpora.c04_corpus(seed, tier)
    panic_candidates(S, ["XorShiftRng"], 4000000 if tier == "quick" else 80000000, "C04")
    return trace_check("C04", tier, seed, S, "Trace_Alg.tla", "Trace_Alg.cfg", release_every=3,
                       rule="all 128 unit-bit seeds of XorShiftRng (complete transition matrix and seed word order) stepped 5 times, structured states, random seeds x K consecutive next_u32 with state image compared after every call",
                       assumptions=COMMON_ASSUME + ["xor128 is GF(2)-linear with identity output: agreement on a basis plus linearity is agreement on all 2^128 states"])


def replay(path):
    """Re-execute the schedule of a replay file on the real code and print what comes back."""
    r = json.load(open(path))
    binp = vlib.build_harness()
    wd = vlib.workdir("replay")
    sp, tp = os.path.join(wd, "s.ndjson"), os.path.join(wd, "t.ndjson")
    if not r.get("schedule"):
        print("replay file has no schedule; contents:\n" + json.dumps(r, indent=1)[:4000])
        return 0
    vlib.write_ndjson(sp, r["schedule"])
    vlib.drive(binp, sp, tp)
    evs = vlib.read_ndjson(tp)
    i = r.get("rejected_event_index")
    print("property %s case %r: re-executed %d ops" % (r.get("property"), r.get("case"), len(evs)))
    if i and i <= len(evs):
        print("event #%d now   : %s" % (i, json.dumps(evs[i - 1])[:1500]))
        print("event #%d before: %s" % (i, json.dumps(r.get("rejected_event"))[:1500]))
    for m in r.get("spec_diagnostics", []):
        print("spec: " + m[:1500])
    return 0


def selftest():
    """Binding and non-vacuity demonstrations (not a property check):
    layer-0 arithmetic against python integers, layer-1 against published known-answer vectors, every
    negative-control model must yield a counterexample, and a recorded trace with ONE corrupted field
    must be rejected exactly at that event."""
    import copy, random
    ok = True
    wd = vlib.workdir("selftest")

    def say(name, good, detail=""):
        nonlocal ok
        ok = ok and good
        print("%-68s %s %s" % (name, "ok" if good else "FAILED", detail))
    # layer 0 / layer 1
    cases = os.path.join(wd, "words_cases.ndjson")
    subprocess.run([sys.executable, os.path.join(vlib.ROOT, "tools", "gen_words_cases.py"), cases], check=True, stdout=subprocess.DEVNULL)
    r = vlib.run_tlc(os.path.join(vlib.SPEC, "mc", "MC_WordsTest.tla"), os.path.join(vlib.SPEC, "mc", "MC_WordsTest.cfg"), os.path.join(wd, "m1"), env={"CASES": cases})
    say("Words.tla vs python integers (%d cases)" % (r["states"] - 1), r["completed"])
    r = vlib.run_tlc(os.path.join(vlib.SPEC, "mc", "MC_Vectors.tla"), os.path.join(vlib.SPEC, "mc", "MC_Vectors.cfg"), os.path.join(wd, "m2"),
                     env={"VECTORS": os.path.join(vlib.SPEC, "vectors.ndjson")}, workers=4, timeout=1500)
    say("layer-1 algorithms vs published known-answer vectors (%d vectors)" % (r["states"] - 1), r["completed"])
    # negative controls
    for mod, cfg in (("MC_JitterApi", "neg/MC_JitterApi_clonecopies.cfg"), ("MC_Seeding", "neg/MC_Seeding_noremap.cfg"),
                     ("MC_CloneEq", "neg/MC_CloneEq_Hc128_noindex.cfg"), ("MC_CloneEq", "neg/MC_CloneEq_Isaac64_nohalf.cfg"),
                     ("MC_Instances", "neg/MC_Instances_global.cfg"), ("MC_Instances", "neg/MC_Instances_tls.cfg"), ("MC_TestTimer", "MC_TestTimer_today.cfg")):
        r = vlib.run_tlc(os.path.join(vlib.SPEC, "mc", mod + ".tla"), os.path.join(vlib.SPEC, "mc", cfg), os.path.join(wd, "n_" + os.path.basename(cfg)), workers=4, timeout=900)
        say("negative control %s yields a counterexample" % cfg, "is violated" in r["out"])
    try:
        a = apalache_jitterapi(wd)
        say("Apalache: IndInv of the JitterApi hand-out machine is inductive and implies the C16 invariants; its negative control is refuted (%.0f s)" % a["wall_s"], True)
    except ToolError as ex:
        say("Apalache inductive invariant of JitterApi: " + str(ex)[:300], False)
    # corrupted traces
    rng = random.Random(7)
    binp = vlib.build_harness()

    def record(S, tag):
        sp, tp = os.path.join(wd, tag + ".s"), os.path.join(wd, tag + ".t")
        vlib.write_ndjson(sp, S.lines())
        vlib.drive(binp, sp, tp)
        return vlib.read_ndjson(tp)

    def validate(evs, spec, tag):
        tp = os.path.join(wd, tag + ".v")
        vlib.write_ndjson(tp, evs)
        r = vlib.run_tlc(os.path.join(vlib.SPEC, "trace", spec + ".tla"), os.path.join(vlib.SPEC, "trace", spec + ".cfg"), os.path.join(wd, "v_" + tag), env={"TRACE": tp})
        return vlib.parse_trace_result(r, len(evs))
    trials = []
    S = vlib.Sched()
    S.case("x", [{"op": "from_seed", "g": 1, "kind": "Xoshiro256StarStar", "seed": [rng.getrandbits(8) for _ in range(32)]}] + [{"op": "next_u64", "g": 1, "n": 3} for _ in range(6)])
    ev = record(S, "alg")
    trials.append(("Trace_Alg", ev, 5, lambda e: e["ret"][1].__setitem__(2, e["ret"][1][2] ^ 1), "one limb of one returned word"))
    trials.append(("Trace_Alg", ev, 4, lambda e: e["obs"]["s"][3].__setitem__(0, e["obs"]["s"][3][0] ^ 0x8000), "one limb of a state image"))
    S = vlib.Sched()
    S.case("x", corpora.api_case_ops("Isaac64Rng", [("next_u32", 0), ("fill_bytes", 13), ("next_u32", 0), ("next_u64", 0), ("fill_bytes", 2051), ("next_u32", 0)], rng))
    ev = record(S, "api")
    k = next(i for i, e in enumerate(ev) if e.get("e") == "fill_bytes" and e.get("n") == 2051)
    trials.append(("Trace_Stream", ev, k + 1, lambda e: e["ret"].__setitem__(2050, e["ret"][2050] ^ 4), "the last byte of a 2051-byte fill"))
    S = vlib.Sched()
    S.case("x", corpora.jitter_case(rng, "quick", ["random"]))
    ev = record(S, "jit")
    k = next(i for i, e in enumerate(ev) if e.get("e") in ("next_u64", "next_u32") and len(e.get("reads", [])) > 4)
    trials.append(("Trace_Jitter", ev, k + 1, lambda e: e["reads"].pop(), "one timer reading removed from a collection"))
    trials.append(("Trace_Jitter", ev, k + 1, lambda e: e["obs"].__setitem__("mpi", (e["obs"]["mpi"] + 31) % 2048), "the memory-walk position"))
    for spec, evs, line, mut, what in trials:
        good = validate(copy.deepcopy(evs), spec, "ok")
        bad = copy.deepcopy(evs)
        mut(bad[line - 1])
        res = validate(bad, spec, "bad")
        say("%s: unmodified trace accepted; corrupting %s rejected at that event" % (spec, what),
            good["status"] == "accepted" and res["status"] == "rejected" and res.get("at") == line, "(rejected at %s, expected %d)" % (res.get("at"), line))
    # without the hook observations C15 must be a tool error, not a pass
    print("selftest: %s" % ("all demonstrations hold" if ok else "SOME DEMONSTRATION FAILED"))
    import shutil
    shutil.rmtree(wd, ignore_errors=True)
    return 0 if ok else 2


# ---------------------------------------------------------------- C05
API_MC = {  # name: (Mode, Class, BufLen, fills quick, fills thorough, MaxBlk)
    "Hc128": ("blk32", "b32", 16, "FillsHc", "FillsHc", 3),
    "Isaac": ("blk32", "b32", 256, "FillsIsaacQ", "FillsIsaac", 3),
    "Isaac64": ("blk64", "b64", 256, "FillsIsaac64Q", "FillsIsaac64", 3),
    "Via_w32": ("via", "w32", 1, "FillsVia", "FillsVia", 6),
    "Via_hi": ("via", "hi", 1, "FillsVia", "FillsVia", 6),
    "Via_lo": ("via", "lo", 1, "FillsVia", "FillsVia", 6),
    "Via_sm": ("via", "sm", 1, "FillsVia", "FillsVia", 6),
    "Via_half": ("via", "half", 1, "FillsVia", "FillsVia", 6),
}


def run_api_mc(tier, wd, extra_props=""):
    """Model-check the API machine (refinement ApiImpl => Stream) for every class; returns
    {name: (tlc result, edges)}.  A violation here is a defect of the MODEL, reported as a tool error."""
    import concurrent.futures, cover
    def one(name):
        mode, cls, blen, fq, ft, maxblk = API_MC[name]
        cfg = os.path.join(wd, "MC_Api_%s.cfg" % name)
        with open(cfg, "w") as f:
            f.write('SPECIFICATION MCSpec\nCONSTANTS\n  Mode = "%s"\n  Class = "%s"\n  BufLen = %d\n  Fills <- %s\n  MaxBlk = %d\n'
                    'CONSTRAINT Bound\nVIEW View\nINVARIANT TypeOK\nPROPERTY Refines\nPROPERTY NoSkipNoRepeat\nCHECK_DEADLOCK FALSE\n%s'
                    % (mode, cls, blen, fq if tier == "quick" else ft, maxblk, extra_props))
        big = name in ("Isaac", "Isaac64")
        r = vlib.run_tlc(os.path.join(vlib.SPEC, "mc", "MC_Api.tla"), cfg, os.path.join(wd, "meta_" + name),
                         workers=5 if big else 1, timeout=2400, xmx="4g")
        if not r["completed"]:
            raise ToolError("model checking of MC_Api_%s did not complete cleanly (the MODEL, not the code):\n%s" % (name, r["out"][-3000:]))
        return name, r, cover.parse_edges(r["out"])
    res = {}
    with concurrent.futures.ThreadPoolExecutor(max_workers=8) as ex:
        for name, r, edges in ex.map(one, list(API_MC)):
            res[name] = (r, edges)
    return res


def c05_schedule(tier, seed, mc):
    import cover, random
    rng = random.Random(seed * 7919 + 5)
    S = vlib.Sched()
    stats = {}
    for name, (r, edges) in mc.items():
        block = name in ("Hc128", "Isaac", "Isaac64")
        init, g = cover.project(edges, block)
        if block and name != "Hc128":
            # every small-n edge from every node; large-n edges from boundary indices only
            keep_idx = {0, 1, 2, 127, 128, 129, 253, 254, 255, 256} if tier == "quick" else set(range(0, 257, 1))
            small = 18 if tier == "quick" else 40
            def select(s, e, keep_idx=keep_idx, small=small):
                if e[0] != "fill_bytes" or e[1] <= small:
                    return True if tier != "quick" else (s == ("init", 0) or s[0] % 4 in (0, 3) or s[0] >= 250)
                return s == ("init", 0) or (s[0] in keep_idx and (tier != "quick" or e[1] % 4 == 1 or e[1] % 8 == 0))
            if tier != "quick":
                keep_idx = {0, 1, 2, 3, 63, 64, 127, 128, 129, 200, 253, 254, 255, 256}
                def select(s, e, keep_idx=keep_idx):
                    if e[0] != "fill_bytes" or e[1] <= 40:
                        return True
                    return s == ("init", 0) or s[0] in keep_idx
        else:
            def select(s, e):
                return True
        walks = cover.cover_walks(init, g, select, max_walk=120 if not block else 150)
        nedges = sum(1 for s in g for e in g[s] if select(s, e))
        stats[name] = {"graph_nodes": len(g), "graph_edges": sum(len(v) for v in g.values()), "edges_selected": nedges,
                       "walks": len(walks), "walk_ops": sum(len(w) for w in walks)}
        for kind in corpora.CLASS_KINDS[name]:
            for wi, w in enumerate(walks):
                if kind == "JitterRng":
                    # calls that are not output calls (set_rounds) in between, in particular while a half is owed
                    w2 = []
                    for o in w:
                        w2.append(o)
                        if rng.random() < (0.5 if o[0] == "next_u32" else 0.15):
                            w2.append(("set_rounds", 0))
                    w = w2
                S.case("%s cover %s #%d" % (kind, name, wi), corpora.api_case_ops(kind, w, rng))
            if not block:
                # via-next types: every fill_bytes length once (the abstract graph has one or two nodes, so the
                # cover says nothing about lengths beyond 25), in shuffled order, separated by next_u32/next_u64
                lens = list(range(0, 90 if tier == "quick" else 600))
                rng.shuffle(lens)
                for lo in range(0, len(lens), 45):
                    w = []
                    for n in lens[lo:lo + 45]:
                        w.append(("fill_bytes", n))
                        w.append(rng.choice([("next_u32", 0), ("next_u64", 0), ("next_u32", 0)]))
                    S.case("%s all lengths %d" % (kind, lo), corpora.api_case_ops(kind, w, rng))
            if kind != "JitterRng":
                # long requests (where a bulk path of a hand-written fill_bytes would start), at every residue mod 8
                big = [1023, 1024, 1025, 1026, 1027, 1028, 1029, 1030, 1031, 1044, 1100, 2047, 2048, 2049, 2052, 4096, 4099, 8197]
                if block:
                    bbk = {"Hc128": 64, "Isaac": 1024, "Isaac64": 2048}[name]
                    big = [3 * bbk, 3 * bbk + 1, 4 * bbk + 5, 5 * bbk - 3, 2 * bbk + bbk // 2 + 2]
                if tier != "quick":
                    big += [16384 + r for r in range(8)] + [65536, 65537, 65541]
                w = []
                for n in big:
                    w.append(("fill_bytes", n))
                    w.append(rng.choice([("next_u32", 0), ("next_u64", 0), ("next_u32", 0)]))
                    w.append(rng.choice([("next_u32", 0), ("next_u64", 0), ("fill_bytes", 3)]))
                S.case("%s long requests" % kind, corpora.api_case_ops(kind, w, rng), weight=sum(big) // 8 + 200)
            if kind != "JitterRng":
                # structured seeds (almost zero, equal words, words cancelling under xor / addition): the projections
                # (halves, tails) of words with special bit patterns
                sds = corpora.structured_seeds(kind, rng) if kind in corpora.WORDBYTES and corpora.SEEDLEN[kind] // corpora.WORDBYTES[kind] >= 1 else []
                sds += [corpora.unit_seed(kind, b) for b in (0, 31, 32, 63, 8 * corpora.SEEDLEN[kind] - 1) if b < 8 * corpora.SEEDLEN[kind]]
                if tier == "quick":
                    sds = sds[::2]
                for si, sd in enumerate(sds):
                    w = [("next_u32", 0), ("next_u32", 0), ("fill_bytes", 3), ("next_u64", 0), ("fill_bytes", 13), ("next_u32", 0), ("next_u64", 0)]
                    S.case("%s structured seed %d" % (kind, si), corpora.api_case_ops(kind, w, rng, seed=sd))
            # seeded random interleavings
            nrand = (3 if tier == "quick" else 40)
            bb = {"Hc128": 64, "Isaac": 1024, "Isaac64": 2048}.get(name)
            for ri in range(nrand):
                w = corpora.random_walk(rng, 40 if tier == "quick" else 120, corpora.WORDBYTES[kind], bb)
                S.case("%s random %d" % (kind, ri), corpora.api_case_ops(kind, w, rng))
    return S, stats


def check_C05(tier, seed):
    t0 = time.time()
    wd = vlib.workdir("mc-C05")
    mc = run_api_mc(tier, wd)
    S, stats = c05_schedule(tier, seed, mc)
    mc_states = sum(r["states"] for r, _ in mc.values())
    mc_distinct = sum(r["distinct"] for r, _ in mc.values())
    extra = {"mc_models": {n: {"states_generated": r["states"], "distinct_states_view": r["distinct"], "edges": len(e),
                               "ops": {op: sum(1 for x in e if x[1][0] == op) for op in ("next_u32", "next_u64", "fill_bytes")}}
                           for n, (r, e) in mc.items()},
             "mc_properties": ["TypeOK", "Refines (ApiImpl => Stream, the C05 statement)", "NoSkipNoRepeat"],
             "cover": stats, "mc_states_total": mc_states, "exhaustive": True,
             "exhaustive_scope": "the abstract API machines are explored completely for the real buffer lengths 16 and 256 (fill lengths: all 0..137 for len 16; classes around 0, 1 and 2 blocks for len 256; blocks <= 3); the conformance side is a transition cover plus seeded random interleavings on all 20 generator types"}
    rc = trace_check("C05", tier, seed, S, "Trace_Stream.tla", "Trace_Stream.cfg", second_spec="Trace_Full",
                     second_filter=lambda evs: not any(ev.get("e") in ("jit_new", "timer") for ev in evs),
                     extra_runs=[("C05-far", corpora.far_corpus(seed, tier), "Trace_Pair", None)],
                     rule="far positions (past 2^8 and 2^16 blocks / words): a generator and its clone skip the same number of bytes, one through fill_bytes and one through native calls, the digests of the bytes and everything after must agree (Trace_Pair). TLC explores ApiImpl (BlockRng / BlockRng64 / via-next, as in the code) exhaustively and checks the refinement to Stream (C05 as a spec) on every transition; its state graph is turned into a transition cover (every selected (index, half, op, n) edge) that is executed on the real types next to an identically seeded twin driven with native calls only; Trace_Stream validates every returned byte against Stream instantiated with the twin's words. distinct = distinct recorded events",
                     assumptions=COMMON_ASSUME[:2] + ["the twin (same seed, native-width calls only) defines the native word stream, as in the property statement",
                                                     "rand_core's BlockRng/BlockRng64/impls are a dependency: modelled in ApiImpl and bound by conformance, not verified themselves"],
                     extra_cov=extra)
    return rc


# ---------------------------------------------------------------- C12
JIT_ASSUME = COMMON_ASSUME[:2] + ["the timer is scripted: JitterRng is exercised as a function of the readings it is given; every event carries exactly the readings the call consumed (instrumented closure)",
                                  "cfg(rngs_verif) accessors expose pool, rounds, mem_prev_index and the pending-half flag after every call"]


def jit_weight(evs):
    return sum(1 + len(ev.get("reads", [])) // 3 for ev in evs)


def check_C12(tier, seed):
    wd = vlib.workdir("mc-C12")
    mcs = {}
    for rounds in (1, 2, 3) if tier == "quick" else (1, 2, 3, 5, 8):
        r = run_tlc_cfg("MC_JitterCollect.tla", "SPECIFICATION Spec\nCONSTANTS\n  Rounds = %d\n  MaxStuck = 4\nINVARIANT ReadsExact\nINVARIANT ReturnsOnlyWhenCollected\n"
                        "INVARIANT RotationsMatch\nINVARIANT StirOnlyAtEnd\nPROPERTY Terminates\nCHECK_DEADLOCK FALSE\n" % rounds, wd, "jc%d" % rounds, workers=1, timeout=600)
        if not r["completed"]:
            raise ToolError("MC_JitterCollect (rounds=%d) did not complete cleanly (model level):\n%s" % (rounds, r["out"][-2000:]))
        mcs["rounds=%d" % rounds] = {"states_generated": r["states"], "distinct": r["distinct"]}
    S = corpora.c12_corpus(seed, tier)
    special_value_cases(S, seed)
    return trace_check("C12", tier, seed, S, "Trace_Jitter.tla", "Trace_Jitter.cfg", weight=jit_weight,
                       extra_cov={"mc_model": {"module": "JitterCollect (one collection as Prime / Measure / StirReturn steps)", "configs": mcs,
                                               "invariants": ["ReadsExact", "ReturnsOnlyWhenCollected", "RotationsMatch", "StirOnlyAtEnd"],
                                               "liveness": "Terminates under strong fairness of non-stuck measurements"}},
                       rule="seeded operation histories (next_u32/next_u64/fill_bytes/timer_stats/set_rounds/clone) on JitterRng over scripted timers whose reading-level delta patterns (random, constant, linear, zero, backwards, arbitrary u64, large) drive every branch of the stuck test; each event logs the readings consumed; TLC recomputes LFSR folds, stuck tests, rotations, stir, memory-walk position, flag, value and the exact number of readings. distinct = distinct recorded events",
                       assumptions=JIT_ASSUME)


# ---------------------------------------------------------------- C14
def only_panics(rejected):
    out = []
    for r in rejected:
        evs = r["events"]
        bad = evs[r["at_event"] - 1] if 0 < r["at_event"] <= len(evs) else None
        if bad is not None and "panic" in bad and not (bad.get("e") == "set_rounds" and bad.get("r") == 0):
            out.append(r)
    return out


def check_C14(tier, seed):
    t0 = time.time()
    parts, nviol = [], 0
    other = 0
    for tag, S, spec, w in (("C14-jit", corpora.c14_jitter_corpus(seed, tier), "Trace_Jitter", jit_weight),
                            ("C14-api", corpora.c14_api_corpus(seed, tier), "Trace_Stream", None),
                            ("C14-alg", corpora.c14_alg_corpus(seed, tier), "Trace_Alg", None),
                            ("C14-far", corpora.far_corpus(seed, tier), "Trace_Pair", None),
                            ("C14-ctor", corpora.c14_ctor_corpus(seed, tier), "Trace_Alg", step_weight),
                            ("C14-tt", corpora.c13_corpus(seed, "quick", [{"mean": m, "zr": False, "zd": False, "back": 0, "mod": 0, "stuck": 0}
                                                                          for m in sorted(set(list(range(0, 41)) + [v for k in range(6, 34) for v in ((1 << k) - 1, 1 << k, (1 << k) + 1)]))]),
                             "Trace_Jitter", jit_weight)):
        ev, cs, res = run_trace(tag, S, spec + ".tla", spec + ".cfg", weight=w)
        parts.append((ev, cs, res))
        pan = only_panics(res["rejected"])
        other += len(res["rejected"]) - len(pan)
        nviol += report_rejections("C14", pan, S)
    # the first JitterRng::new() calls of a process, made by 12 threads at the same moment (twice: cache empty / filled)
    Sp = vlib.Sched()
    Sp.case("JitterRng::new() from 12 threads at once", [{"op": "jit_std_new_parallel", "threads": 12}, {"op": "jit_std_new_parallel", "threads": 12}, {"op": "jit_std_new"}])
    ev, cs, res = run_trace("C14-parnew", Sp, "Trace_Jitter.tla", "Trace_Jitter.cfg")
    parts.append((ev, cs, res))
    nviol += report_rejections("C14", only_panics(res["rejected"]), Sp)
    # Hc128Rng past word 2^32, in the optimised build with overflow checks (16 GiB of keystream in about 20 s)
    Sv = corpora.very_far_corpus(seed)
    ev, cs, res = run_trace("C14-veryfar", Sv, "Trace_Pair.tla", "Trace_Pair.cfg", profile="o3chk")
    parts.append((ev, cs, res))
    nviol += report_rejections("C14", only_panics(res["rejected"]), Sv)
    # panic search over many seeds (native, no trace per seed); whatever it finds is replayed as an ordinary
    # schedule and decided by the trace specification like every other event
    binp = vlib.build_harness()
    wd = vlib.workdir("run-C14scan")
    sp, tp = os.path.join(wd, "scan.s"), os.path.join(wd, "scan.t")
    nscan = 300000 if tier == "quick" else 6000000
    ops = [{"op": "reset"}]
    for kind in corpora.ALL_SEEDABLE + ["Hc128Core", "IsaacCore", "Isaac64Core"]:
        ops.append({"op": "panic_scan", "kind": kind, "n": nscan * (12 if kind in ("IsaacRng", "Isaac64Rng") else 1), "seed_len": corpora.SEEDLEN[kind], "outputs": 8, "threads": 14})
    vlib.write_ndjson(sp, ops)
    vlib.drive(vlib.build_harness("o3chk", True), sp, tp, timeout=3000)     # optimised, with overflow checks and debug assertions
    S4 = vlib.Sched()
    scanned = {}
    for e in vlib.read_ndjson(tp):
        if e.get("e") != "panic_scan":
            continue
        scanned[e["kind"]] = e.get("scanned")
        for f in e.get("found", []):
            k = e["kind"]
            first = {"op": "seed_from_u64", "g": 1, "kind": k, "x": f["x"]} if f["stage"] == "seed_from_u64" else {"op": "from_seed", "g": 1, "kind": k, "seed": f["seed"]}
            rest = [{"op": "generate", "g": 1}] if k.endswith("Core") else [{"op": "next_u32", "g": 1, "n": 8}, {"op": "next_u64", "g": 1, "n": 8}, {"op": "fill_bytes", "g": 1, "n": 37}]
            S4.case("%s %s k=%d panics" % (k, f["stage"], f["k"]), [first] + rest)
    if S4.cases:
        ev, cs, res = run_trace("C14-scan", S4, "Trace_Full.tla", "Trace_Full.cfg")
        parts.append((ev, cs, res))
        pan = only_panics(res["rejected"])
        nviol += report_rejections("C14", pan, S4)
    cov = base_cov(parts, "overflow-checked dev build; every operation wrapped in catch_unwind; the total specification expects exactly one panic (set_rounds(0)); hostile corpora: JitterRng timers with deltas +-(2^31-1), -2^31, 2^31, 2^32+-1, 2^63, u64 wrap-around, strictly decreasing, ping-pong between values 2^31 apart, in next_*/fill_bytes/timer_stats and across all 400 probes of test_timer; test_timer over timers with every mean delta variation 0..40 and 2^k-1, 2^k, 2^k+1 up to 2^33 (then set_rounds); all-0xFF / all-zero / high-bit seeds and extreme u64 seeds of all 19 seedable types with fill_bytes lengths 0..17, block size +-1 (and 100000 in thorough) interleaved with next_*; jump/long_jump on all-ones states; positions past 2^8 and 2^16 blocks / words of every type (skipped natively, only a digest recorded) and Hc128Rng past word 2^32 (optimised build with overflow checks). distinct = distinct recorded events",
                   ["Trace_Jitter", "Trace_Stream", "Trace_Alg"])
    cov["panic_scan"] = {"seeds_per_kind_constructed_three_ways_and_driven": scanned, "panicking_seeds_found": len(S4.cases)}
    cov["panics_observed"] = sum(1 for e, _, _ in parts for x in e if "panic" in x)
    cov["rejections_attributed_to_other_properties"] = other
    vlib.write_evidence("C14", tier, seed, "model_checking", cov,
                        JIT_ASSUME + ["a rejection whose failing event is not a panic belongs to the property that owns the value (C05/C12/C13) and is not counted here"],
                        time.time() - t0, nviol)
    return 1 if nviol else 0


# ---------------------------------------------------------------- C13
def run_tt_mc(wd, tiny=2, maxmean=10000):
    cfg = os.path.join(wd, "MC_TestTimer.cfg")
    with open(cfg, "w") as f:
        f.write("SPECIFICATION Spec\nCONSTANTS\n  TinyLimit = %d\n  MaxMean = %d\nINVARIANT OutcomeAllowed\nINVARIANT ErrorWhenDefinite\n"
                "INVARIANT NeverAsserts\nINVARIANT RoundsPositive\nCHECK_DEADLOCK FALSE\n" % (tiny, maxmean))
    return vlib.run_tlc(os.path.join(vlib.SPEC, "mc", "MC_TestTimer.tla"), cfg, os.path.join(wd, "meta_tt"), workers=4, timeout=1200, xmx="4g")


def parse_tt_cases(out):
    import re
    cases = []
    for t in vlib.extract_tuples(out, "CASE"):
        m = re.match(r'<<\s*"CASE",\s*(TRUE|FALSE),\s*(TRUE|FALSE),\s*(\d+),\s*(\d+),\s*(\d+),\s*<<(\d+), (\d+), (\d+), (\d+)>>', t)
        if m:
            zr, zd, b, md, st = m.group(1) == "TRUE", m.group(2) == "TRUE", int(m.group(3)), int(m.group(4)), int(m.group(5))
            mean = vlib.from_limbs([int(m.group(i)) for i in (6, 7, 8, 9)])
            cases.append({"zr": zr, "zd": zd, "back": b, "mod": md, "stuck": st, "mean": mean})
    return cases


def check_C13(tier, seed):
    import random
    t0 = time.time()
    wd = vlib.workdir("mc-C13")
    mc = run_tt_mc(wd, tiny=2, maxmean=10000 if tier != "quick" else 2000)
    if not mc["completed"]:
        raise ToolError("MC_TestTimer did not complete cleanly (model level):\n" + mc["out"][-3000:])
    allcases = parse_tt_cases(mc["out"])
    rng = random.Random(seed + 13)
    # boundary selection: all count/flag combinations, every mean below 40, every power-of-two boundary, a sample of the rest
    sel, seen = [], set()
    for c in allcases:
        key = (c["zr"], c["zd"], c["back"], c["mod"], c["stuck"], c["mean"])
        if key in seen:
            continue
        seen.add(key)
        benign = not (c["zr"] or c["zd"] or c["back"] or c["mod"] or c["stuck"])
        m = c["mean"]
        pow2 = m >= 16 and any(abs(m - (1 << k)) <= 1 for k in range(4, 33))
        if benign and (m < (18 if tier == "quick" else 40) or (pow2 and (tier != "quick" or m % 2 == 0)) or rng.random() < (0.002 if tier == "quick" else 0.03)):
            sel.append(c)
        elif not benign and (tier != "quick" or rng.random() < 0.08):
            sel.append(c)
    S = corpora.c13_corpus(seed, tier, sel)
    rc = trace_check("C13", tier, seed, S, "Trace_Jitter.tla", "Trace_Jitter.cfg", weight=jit_weight,
                     rule="TLC enumerates abstract probe summaries over all boundary values (means 0..N and every 2^k-1, 2^k, 2^k+1; counts at 0/3/4/270/271/300; flags) and checks the code-shaped decision procedure against the outcome relation of the property, including set_rounds(test_timer()?) and the process-wide cache of JitterRng::new(); the boundary cases it visited are realised as concrete 1601-reading timer scripts, run through the real test_timer (then set_rounds), and Trace_Jitter recomputes the summary from the readings consumed and checks the returned Ok(r)/Err(e) against the relation. distinct = distinct recorded events",
                     assumptions=JIT_ASSUME + ["counts and the mean are taken over the 300 probes after the 100 warm-up probes, as the crate documents; where the property leaves the reading open (first variation term, Z vs mod-2^32 differences, warm-up probes) the relation admits both"],
                     extra_cov={"mc_model": {"states_generated": mc["states"], "distinct": mc["distinct"], "invariants": ["OutcomeAllowed", "ErrorWhenDefinite", "NeverAsserts", "RoundsPositive"],
                                             "abstract_cases_enumerated": len(allcases), "cases_realised_as_scripts": len(sel)}})
    return rc


# ---------------------------------------------------------------- C16
def run_tlc_cfg(module, cfg_text, wd, name, workers=4, timeout=1800):
    cfg = os.path.join(wd, name + ".cfg")
    with open(cfg, "w") as f:
        f.write(cfg_text)
    return vlib.run_tlc(os.path.join(vlib.SPEC, "mc", module), cfg, os.path.join(wd, "meta_" + name), workers=workers, timeout=timeout, xmx="6g")


JA_CFG = """SPECIFICATION %s
CONSTANTS
  Inst <- MCInst
  MaxTok = %d
  FillLens <- MCFills
  CloneCopiesFlag = %s
CONSTRAINT Bound
INVARIANT TypeOK
INVARIANT AtMostOnce
INVARIANT PendingIsHighHalfOfOwnValue
PROPERTY FreshOrPendingHalf
CHECK_DEADLOCK FALSE
"""


def parse_j_edges(out):
    import re
    edges = []
    for t in vlib.extract_tuples(out, "J"):
        m = re.match(r'<<\s*"J",\s*<<<<(\d), (\d), (\d)>>, <<(\d), (\d), (\d)>>>>,\s*"(\w+)",\s*(\d+),\s*(\d+),\s*<<<<(\d), (\d), (\d)>>, <<(\d), (\d), (\d)>>>>', t)
        if not m:
            continue
        g = m.groups()
        s = tuple(int(x) for x in g[0:6])
        t2 = tuple(int(x) for x in g[9:15])
        edges.append((s, (g[6], int(g[7]), int(g[8])), t2))
    return edges


def check_C16(tier, seed):
    import random, cover, collections
    t0 = time.time()
    wd = vlib.workdir("mc-C16")
    mc = run_tlc_cfg("MC_JitterApi.tla", JA_CFG % ("Spec", 4 if tier == "quick" else 6, "FALSE"), wd, "ja", workers=8)
    if not mc["completed"]:
        raise ToolError("MC_JitterApi did not complete cleanly (model level):\n" + mc["out"][-3000:])
    # the negative control: Clone copying the flag must be caught by the same invariants
    neg = run_tlc_cfg("MC_JitterApi.tla", JA_CFG % ("Spec", 3, "TRUE"), wd, "ja_neg", workers=2)
    if "is violated" not in neg["out"]:
        raise ToolError("negative control failed: the clone-copies-flag mutation of JitterApi was not detected")
    apa = apalache_jitterapi(wd) if tier != "quick" else None
    gen = run_tlc_cfg("MC_JitterApi.tla", JA_CFG % ("MCSpec", 3, "FALSE"), wd, "ja_gen", workers=1)
    edges = parse_j_edges(gen["out"])
    if not edges:
        raise ToolError("no edges parsed from MC_JitterApi GEN run")
    g = collections.defaultdict(dict)
    init = None
    for s, e, t in edges:
        if init is None:
            init = s
        g[s].setdefault(e, t)      # the open corner (fill n<=4 with a half pending) has two targets: either is fine for routing
    walks = cover.cover_walks(init, g, lambda s, e: True, max_walk=60)
    rng = random.Random(seed * 31 + 16)
    S = vlib.Sched()
    roundsets = [1, 2, 3] if tier == "quick" else [1, 2, 3, 64, 255]
    for wi, w in enumerate(walks):
        for r in (roundsets if tier != "quick" else [roundsets[wi % len(roundsets)]]):
            ncoll = sum(1 + (e[2] // 8 if e[0] == "fill_bytes" else 0) + 1 for e in w)
            sc = corpora.jitter_script(rng, [("random", min(200000, ncoll * (4 + 3 * (r + 2)) * 2 + 100))])
            ops = [{"op": "timer", "t": 1, "readings": [vlib.u64(x) for x in sc], "cont": corpora.CONT},
                   {"op": "jit_new", "g": 1, "t": 1}, {"op": "set_rounds", "g": 1, "r": r}]
            cur = {1: r}
            for (op, a, b) in w:
                if op == "clone":
                    ops.append({"op": "clone", "g": a, "to": b})
                    cur[b] = cur[a]
                elif op == "set_rounds":
                    # mostly to a different count, sometimes to the count it already has
                    cur[a] = cur[a] if rng.random() < 0.25 else (cur[a] % 5) + 1 if cur[a] < 6 else rng.choice([1, 2, cur[a] - 1])
                    ops.append({"op": "set_rounds", "g": a, "r": cur[a]})
                elif op == "timer_stats":
                    ops.append({"op": "timer_stats", "g": a, "var": rng.random() < 0.5})
                elif op == "test_timer":
                    ops.append({"op": "test_timer", "g": a})
                elif op == "clone_from":
                    ops.append({"op": "clone_from", "g": a, "from": b})
                    cur[a] = cur[b]
                elif op == "fill_bytes":
                    ops.append({"op": op, "g": a, "n": b})
                else:
                    ops.append({"op": op, "g": a})
            S.case("handout cover #%d rounds=%d" % (wi, r), ops)
    special_value_cases(S, seed)
    # a fresh collection reads the timer at least `rounds` times however long the clock stands still in between
    corpora.stuck_run_cases(S, rng, (66, 70, 260), 230)
    corpora.stuck_run_cases(S, rng, (70, 1030), 2)
    for r in (127, 128, 254, 255):        # the extreme round counts (u8)
        corpora.stuck_run_cases(S, rng, (2,), r)
    corpora.zero_reading_cases(S, rng)
    # the timer closure fails inside a collection and the caller recovers: no half is owed after the unwound call
    corpora.timer_fault_cases(S, rng)
    S.case("JitterRng::new(): a new generator owes no half", [{"op": "jit_std_new"}, {"op": "jit_std_new"}])
    S.case("a by-value duplicate (if JitterRng over a fn timer is Copy) owns no half", [{"op": "by_value_copy"}])
    rc = trace_check("C16", tier, seed, S, "Trace_Jitter.tla", "Trace_Jitter.cfg", weight=jit_weight,
                     rule="timer scripts constructed so that the first collected value is 0, all ones or has a zero / all-ones half are run through the same discipline. TLC explores the hand-out machine JitterApi (collections as tokens, <=3 instances incl. clone of clone, all interleavings of next_u32/next_u64/fill_bytes(n)/clone) and checks AtMostOnce, PendingIsHighHalfOfOwnValue and FreshOrPendingHalf; a negative control (Clone copying the flag) must fail; every edge of the projected graph (alive, pending flags) is executed on real JitterRng instances with their own scripted timer cursors, and Trace_Jitter, which executes the same plans on concrete pools, validates values, flags and readings consumed. distinct = distinct recorded events",
                     assumptions=JIT_ASSUME + ["fill_bytes(n in 1..4) with a half pending is left open between C05's and C16's wording: both plans are admitted"],
                     extra_cov={"mc_model": {"states_generated": mc["states"], "distinct": mc["distinct"], "max_collections": 4 if tier == "quick" else 6,
                                             "invariants": ["TypeOK", "AtMostOnce", "PendingIsHighHalfOfOwnValue", "FreshOrPendingHalf"],
                                             "negative_control": "CloneCopiesFlag=TRUE violates PendingIsHighHalfOfOwnValue"},
                                "cover": {"projected_nodes": len(g), "projected_edges": sum(len(v) for v in g.values()), "walks": len(walks)},
                                **({"inductive_invariant": apa} if apa else {}),
                                "exhaustive": True, "exhaustive_scope": "abstract hand-out machine with <=3 instances and <=4 (quick) / 6 (thorough) collections"})
    return rc


def apalache_jitterapi(wd):
    """C16 for an unbounded number of collections: the three obligations of the inductive invariant of
    apalache/APA_JitterApi.tla, and its negative control, run in parallel.  Model level: any failure is a tool error."""
    import concurrent.futures as cf, shutil
    src = os.path.join(vlib.SPEC, "apalache", "APA_JitterApi.tla")
    d = os.path.join(wd, "apa")
    shutil.rmtree(d, ignore_errors=True)
    os.makedirs(d)
    for f in (src, os.path.join(vlib.SPEC, "JitterApi.tla")):     # apalache resolves EXTENDS in the module's directory
        shutil.copy(f, d)
    mod = os.path.join(d, "APA_JitterApi.tla")
    jobs = {"init":  ["--cinit=CInit", "--init=Init", "--next=NextB", "--inv=IndInv", "--length=0"],
            "step":  ["--cinit=CInit", "--init=IndInit", "--next=NextB", "--inv=IndInv", "--length=1"],
            "goal":  ["--cinit=CInit", "--init=IndInit", "--next=NextB", "--inv=Goal", "--length=0"],
            "neg":   ["--cinit=CInitNeg", "--init=IndInit", "--next=NextB", "--inv=IndInv", "--length=1"]}
    with cf.ThreadPoolExecutor(4) as ex:
        futs = {k: ex.submit(vlib.run_apalache, mod, a, os.path.join(d, "out-" + k)) for k, a in jobs.items()}
        res = {k: f.result() for k, f in futs.items()}
    for k in ("init", "step", "goal"):
        if res[k]["outcome"] != "NoError":
            raise ToolError("Apalache obligation %s of APA_JitterApi failed (model level):\n%s" % (k, res[k]["out"][-2000:]))
    if res["neg"]["outcome"] != "Error":
        raise ToolError("Apalache negative control (CloneCopiesFlag) was not refuted:\n" + res["neg"]["out"][-2000:])
    shutil.rmtree(d, ignore_errors=True)
    return {"tool": "apalache-mc 0.58 (symbolic, SMT)", "module": "spec/apalache/APA_JitterApi.tla",
            "obligations": {"Init => IndInv": "NoError", "IndInv /\\ NextB => IndInv'": "NoError", "IndInv => AtMostOnce /\\ PendingIsHighHalfOfOwnValue": "NoError"},
            "scope": "3 instances, every fill length 0..47, token numbers and the number of collections arbitrary integers, |handed| <= 10 in the induction hypothesis",
            "negative_control": "CloneCopiesFlag=TRUE: inductive step refuted",
            "wall_s": round(max(r["wall"] for r in res.values()), 1)}


# ---------------------------------------------------------------- C15
def check_C15(tier, seed):
    import re
    t0 = time.time()
    S = corpora.c15_schedule(seed, tier)
    binp = vlib.build_harness()
    wd = vlib.workdir("run-C15")
    sp, tp = os.path.join(wd, "sched.ndjson"), os.path.join(wd, "trace.ndjson")
    vlib.write_ndjson(sp, S.lines())
    vlib.drive(binp, sp, tp)
    events = vlib.read_ndjson(tp)
    if sum(1 for e in events if "pool" in (e.get("obs") or {})) == 0:
        raise ToolError("no hook observations in the extraction trace: the cfg(rngs_verif) accessors are not compiled in")
    r = vlib.run_tlc(os.path.join(vlib.SPEC, "alg", "ALG_Pool.tla"), os.path.join(vlib.SPEC, "alg", "ALG_Pool.cfg"),
                     os.path.join(wd, "meta"), env={"TRACE": tp}, timeout=1500, xmx="4g")
    res = vlib.extract_tuples(r["out"], "RESULT")
    if not res:
        raise ToolError("ALG_Pool produced no RESULT:\n" + r["out"][-3000:])
    items = re.findall(r'<<"(lp|lt|st|lv|tv|nx|lh|th|tp|tf)", "([a-z-]+)", (\d+), <<(\d+), (\d+), (\d+), (\d+)>>, (\d+)>>', res[-1])
    rot = int(re.search(r'(\d+)\s*>>\s*$', res[-1]).group(1))
    names = {"lp": "pool -> lfsr(pool, fixed time)", "lt": "time -> lfsr(fixed pool, time)", "st": "pool -> stir(pool)",
             "lv": "pool -> pool after the variable-round fold step (fixed readings)", "tv": "time -> pool after the variable-round fold step (fixed pool)",
             "nx": "pool -> next_u64 output of one whole collection (fixed readings)",
             "lh": "pool -> lfsr(pool, fixed time) while a half is owed", "th": "time -> lfsr(fixed pool, time) while a half is owed",
             "tp": "pool -> pool after test_timer over a healthy clock", "tf": "pool -> pool after a test_timer that gives up at the fifth probe"}
    R1, R2 = corpora.C15_R1, corpora.C15_R2
    nviol, undecided, ranks = 0, [], {}
    C, P0 = 0x0123456789ABCDEF, 0xDEADBEEF0BADF00D
    for kind, status, rank, k0, k1, k2, k3, ntr in items:
        ranks[names[kind]] = {"status": status, "rank": int(rank), "affinity_triples": int(ntr)}
        if status == "incomplete":
            raise ToolError("extraction incomplete for map " + kind)
        if status == "not-affine":
            # rank arguments do not apply: look for a concrete collision on the real code instead
            col = None
            if kind in ("st", "lp", "lv"):
                cs, ct = os.path.join(wd, "col.ndjson"), os.path.join(wd, "colt.ndjson")
                vlib.write_ndjson(cs, [{"op": "reset"}, {"op": "timer", "t": 1, "readings": [vlib.u64(C)], "cont": [vlib.u64(0)]}, {"op": "jit_new", "g": 1, "t": 1},
                                       {"op": "collide", "g": 1, "map": kind, "budget": 1 << 16 if tier == "quick" else 1 << 20}])
                vlib.drive(binp, cs, ct)
                for e in vlib.read_ndjson(ct):
                    if "collision" in e:
                        col = [vlib.from_limbs(x) for x in e["collision"]]
            if col:
                ops = [{"op": "timer", "t": 1, "readings": [vlib.u64(C)], "cont": [vlib.u64(0)]}, {"op": "jit_new", "g": 1, "t": 1}]
                for w, v in ((0, col[0]), (1, col[1])):
                    ops += [{"op": "set_pool", "g": 1, "pool": vlib.u64(v)}, {"op": "stir" if kind == "st" else "timer_stats", "g": 1, "tag": ["confirm", kind, w]}]
                    if kind != "st":
                        ops[-1]["var"] = (kind == "lv")
                cs, ct = os.path.join(wd, "c2.ndjson"), os.path.join(wd, "ct2.ndjson")
                vlib.write_ndjson(cs, [{"op": "reset"}] + ops)
                vlib.drive(binp, cs, ct)
                rc = vlib.run_tlc(os.path.join(vlib.SPEC, "alg", "ALG_Confirm.tla"), os.path.join(vlib.SPEC, "alg", "ALG_Confirm.cfg"),
                                  os.path.join(wd, "metac2"), env={"TRACE": ct}, timeout=300)
                if '<<"COLLISION", TRUE>>' in rc["out"] and col[0] != col[1]:
                    nviol += 1
                    path = vlib.write_replay("C15", {"property": "C15", "case": "collision of " + names[kind], "signature": "collision|" + kind,
                                                     "schedule": [{"op": "reset"}] + ops, "inputs": ["0x%016x" % col[0], "0x%016x" % col[1]],
                                                     "note": "the map is not affine; the two tagged events leave the same pool: two different inputs are merged"})
                    print("VIOLATION property=C15 replay=%s" % path)
                    print("  %s is not affine, and inputs 0x%016x and 0x%016x give the same pool on the real code" % (names[kind], col[0], col[1]))
                    continue
            undecided.append(kind)
            continue
        if int(rank) < 64:
            # certificate: kernel vector k with f(k) = f(0); replay the collision on the real code
            k = vlib.from_limbs([int(k0), int(k1), int(k2), int(k3)])
            pre = [1000, 2037, 3078, 4123, 5172, 6225, 7282]       # one collection with rounds = 1 (for "lh" / "th": a next_u32 first)
            rd = {"st": [], "lp": [C, C + 1] * 2, "lt": [0, 1, k, k + 1], "lv": [C, R1, R2, C + 1] * 2, "tv": [0, R1, R2, 1, k, R1, R2, k + 1], "nx": S.nx_readings,
                  "lh": pre + [C, C + 1] * 2, "th": pre + [0, 1, k, k + 1], "tp": S.tt_readings["tp"], "tf": S.tt_readings["tf"]}[kind]
            ops = [{"op": "timer", "t": 1, "readings": [vlib.u64(x) for x in rd], "cont": [vlib.u64(1)]},
                   {"op": "jit_new", "g": 1, "t": 1}]
            if kind in ("lh", "th"):
                ops += [{"op": "set_rounds", "g": 1, "r": 1}, {"op": "next_u32", "g": 1}]
            for w, v in ((0, 0), (1, k)):
                if kind in ("tp", "tf"):
                    ops += [{"op": "seek", "g": 1, "pos": 0}, {"op": "set_pool", "g": 1, "pool": vlib.u64(v)}, {"op": "test_timer", "g": 1, "tag": ["confirm", kind, w]}]
                elif kind in ("lh", "th"):
                    ops += [{"op": "seek", "g": 1, "pos": len(pre) + 2 * w}, {"op": "set_pool", "g": 1, "pool": vlib.u64(v if kind == "lh" else P0)},
                            {"op": "timer_stats", "g": 1, "var": False, "tag": ["confirm", kind, w]}]
                elif kind == "st":
                    ops += [{"op": "set_pool", "g": 1, "pool": vlib.u64(v)}, {"op": "stir", "g": 1, "tag": ["confirm", kind, w]}]
                elif kind == "nx":
                    ops += [{"op": "seek", "g": 1, "pos": 0}, {"op": "set_pool", "g": 1, "pool": vlib.u64(v)}, {"op": "next_u64", "g": 1, "tag": ["confirm", kind, w]}]
                elif kind in ("lp", "lv"):
                    ops += [{"op": "set_pool", "g": 1, "pool": vlib.u64(v)}, {"op": "timer_stats", "g": 1, "var": kind == "lv", "tag": ["confirm", kind, w]}]
                else:
                    ops += [{"op": "set_pool", "g": 1, "pool": vlib.u64(P0)}, {"op": "timer_stats", "g": 1, "var": kind == "tv", "tag": ["confirm", kind, w]}]
            cs, ct = os.path.join(wd, "c.ndjson"), os.path.join(wd, "ct.ndjson")
            vlib.write_ndjson(cs, [{"op": "reset"}] + ops)
            vlib.drive(binp, cs, ct)
            rc = vlib.run_tlc(os.path.join(vlib.SPEC, "alg", "ALG_Confirm.tla"), os.path.join(vlib.SPEC, "alg", "ALG_Confirm.cfg"),
                              os.path.join(wd, "metac"), env={"TRACE": ct}, timeout=300)
            if '<<"COLLISION", TRUE>>' in rc["out"]:
                nviol += 1
                path = vlib.write_replay("C15", {"property": "C15", "case": "collision of " + names[kind], "signature": "collision|" + kind,
                                                 "schedule": [{"op": "reset"}] + ops, "kernel_vector": "0x%016x" % k, "rank": int(rank),
                                                 "note": "the two tagged events leave the same pool: two different inputs are merged"})
                print("VIOLATION property=C15 replay=%s" % path)
                print("  %s has GF(2) rank %s < 64; inputs 0 and 0x%016x give the same pool on the real code" % (names[kind], rank, k))
            else:
                raise ToolError("rank-deficient map %s but the collision did not reproduce on the code:\n%s" % (kind, rc["out"][-1500:]))
    # special inputs and outputs (where a guard such as "never leave the pool at zero" would sit): the affine map
    # read off the basis predicts them; where the code answers something else the map is not affine after all, and the
    # affine preimage of the code's answer is a second input with the same image - replayed and confirmed like every
    # other collision.  The linear algebra here only proposes inputs.
    img = {}
    for e in events:
        if isinstance(e.get("tag"), list) and len(e["tag"]) == 2 and e["tag"][0] in names and "pool" in (e.get("obs") or {}):
            img[(e["tag"][0], e["tag"][1])] = vlib.from_limbs(e["obs"]["pool"])
    M64 = (1 << 64) - 1
    probes_run = 0

    nx_off = [0]        # where in the whole-collection readings a collection starts (another offset = another affine map)

    def map_ops(kind, x, tag, rd):
        """ops applying map `kind` to input x; the readings the call consumes are appended to rd and the cursor is
        re-seated on them first"""
        if kind == "st":
            return [{"op": "set_pool", "g": 1, "pool": vlib.u64(x)}, {"op": "stir", "g": 1, "tag": tag}]
        if kind == "nx":
            return [{"op": "seek", "g": 1, "pos": nx_off[0]}, {"op": "set_pool", "g": 1, "pool": vlib.u64(x)}, {"op": "next_u64", "g": 1, "tag": tag}]
        pos = len(rd)
        if kind in ("lp", "lv"):
            rd.extend([C, C + 1] if kind == "lp" else [C, R1, R2, C + 1])
            pool = x
        else:
            rd.extend([x, (x + 1) & M64] if kind == "lt" else [x, R1, R2, (x + 1) & M64])
            pool = P0
        return [{"op": "seek", "g": 1, "pos": pos}, {"op": "set_pool", "g": 1, "pool": vlib.u64(pool)},
                {"op": "timer_stats", "g": 1, "var": kind in ("lv", "tv"), "tag": tag}]

    def sched_for(kind, pairs):
        rd = list(S.nx_readings) if kind == "nx" else []
        body = []
        for x, tag in pairs:
            body += map_ops(kind, x, tag, rd)
        return [{"op": "reset"}, {"op": "timer", "t": 1, "readings": [vlib.u64(v) for v in (rd or [0])], "cont": [vlib.u64(1009)]}, {"op": "jit_new", "g": 1, "t": 1}] + body

    def run_map(kind, xs):
        cs, ct = os.path.join(wd, "p.ndjson"), os.path.join(wd, "pt.ndjson")
        vlib.write_ndjson(cs, sched_for(kind, [(x, ["probe", kind, i]) for i, x in enumerate(xs)]))
        vlib.drive(binp, cs, ct)
        out = {}
        for e in vlib.read_ndjson(ct):
            if isinstance(e.get("tag"), list) and e["tag"][0] == "probe" and "pool" in (e.get("obs") or {}) and "panic" not in e:
                out[e["tag"][2]] = vlib.from_limbs(e["obs"]["pool"])
        return [out.get(i) for i in range(len(xs))]
    for kind in names:
        if kind in ("lh", "th", "tp", "tf"):
            continue
        if ranks.get(names[kind], {}).get("status") != "affine" or ranks[names[kind]]["rank"] != 64 or (kind, -1) not in img:
            continue
        c0 = img[(kind, -1)]
        cols = [img[(kind, i)] ^ c0 for i in range(64)]
        predict = lambda x: c0 ^ functools.reduce(lambda a, i: a ^ (cols[i] if x >> i & 1 else 0), range(64), 0)
        xs = [0, M64, 1, 1 << 63]
        for y in (0, M64, c0, 1):
            x = gf2_solve(cols, y ^ c0)
            if x is not None:
                xs.append(x)
        xfp = gf2_solve([cols[i] ^ (1 << i) for i in range(64)], c0)       # a fixed point of the map, if it has one
        if xfp is not None:
            xs.append(xfp)
        got = run_map(kind, xs)
        probes_run += len(xs)
        for x, y in zip(xs, got):
            if y is None or y == predict(x):
                continue
            q = gf2_solve(cols, y ^ c0)           # the affine preimage of what the code answered
            if q is None or q == x:
                continue
            got2 = run_map(kind, [q])
            if got2[0] != y:
                continue
            ops = sched_for(kind, [(x, ["confirm", kind, 0]), (q, ["confirm", kind, 1])])[1:]
            cs, ct = os.path.join(wd, "c3.ndjson"), os.path.join(wd, "ct3.ndjson")
            vlib.write_ndjson(cs, [{"op": "reset"}] + ops)
            vlib.drive(binp, cs, ct)
            rc3 = vlib.run_tlc(os.path.join(vlib.SPEC, "alg", "ALG_Confirm.tla"), os.path.join(vlib.SPEC, "alg", "ALG_Confirm.cfg"),
                               os.path.join(wd, "metac3"), env={"TRACE": ct}, timeout=300)
            if '<<"COLLISION", TRUE>>' in rc3["out"]:
                nviol += 1
                path = vlib.write_replay("C15", {"property": "C15", "case": "collision of " + names[kind], "signature": "collision|special|" + kind,
                                                 "schedule": [{"op": "reset"}] + ops, "inputs": ["0x%016x" % x, "0x%016x" % q],
                                                 "note": "the map is affine on the basis and on random triples but not at this special input / output; the two tagged events leave the same pool: two different inputs are merged"})
                print("VIOLATION property=C15 replay=%s" % path)
                print("  %s: inputs 0x%016x and 0x%016x give the same result 0x%016x on the real code (a special case breaks the bijection)" % (names[kind], x, q, y))
                break
    # a whole collection that lands on the value it started from: most affine maps of GF(2)^64 have no fixed point, so
    # several collections (the same readings entered at different offsets) are tried until one has
    if ranks.get(names["nx"], {}).get("status") == "affine":
        for off in range(1, 13):
            nx_off[0] = off
            basis = run_map("nx", [0] + [1 << i for i in range(64)])
            if any(v is None for v in basis):
                continue
            c1 = basis[0]
            cols1 = [basis[i + 1] ^ c1 for i in range(64)]
            xfp = gf2_solve([cols1[i] ^ (1 << i) for i in range(64)], c1)
            if xfp is None:
                continue
            probes_run += 66
            y = run_map("nx", [xfp])[0]
            pred = c1 ^ functools.reduce(lambda a, i: a ^ (cols1[i] if xfp >> i & 1 else 0), range(64), 0)
            if y is None or y == pred:
                break               # the fixed point behaves like every other pool
            q = gf2_solve(cols1, y ^ c1)
            if q is None or q == xfp or run_map("nx", [q])[0] != y:
                break
            ops = sched_for("nx", [(xfp, ["confirm", "nx", 0]), (q, ["confirm", "nx", 1])])[1:]
            cs, ct = os.path.join(wd, "c4.ndjson"), os.path.join(wd, "ct4.ndjson")
            vlib.write_ndjson(cs, [{"op": "reset"}] + ops)
            vlib.drive(binp, cs, ct)
            rc4 = vlib.run_tlc(os.path.join(vlib.SPEC, "alg", "ALG_Confirm.tla"), os.path.join(vlib.SPEC, "alg", "ALG_Confirm.cfg"),
                               os.path.join(wd, "metac4"), env={"TRACE": ct}, timeout=300)
            if '<<"COLLISION", TRUE>>' in rc4["out"]:
                nviol += 1
                path = vlib.write_replay("C15", {"property": "C15", "case": "collision of " + names["nx"], "signature": "collision|fixedpoint|nx",
                                                 "schedule": [{"op": "reset"}] + ops, "inputs": ["0x%016x" % xfp, "0x%016x" % q],
                                                 "note": "a pool that one collection maps to itself is treated specially: it and another pool end in the same output"})
                print("VIOLATION property=C15 replay=%s" % path)
                print("  %s: pools 0x%016x (a fixed point of the collection) and 0x%016x are merged into 0x%016x on the real code" % (names["nx"], xfp, q, y))
            break
        nx_off[0] = 0
    if rot != 64:
        raise ToolError("specification-level rotl7 is not a permutation?!")
    cov = {"states": max(1, r["states"]), "transitions": max(1, r["states"] - 1), "traces_validated_against_impl": 1,
           "samples": [e for e in events if e.get("tag") in (["lp", 3], ["lt", 63], ["st", 0])][:3],
           "maps": ranks, "special_input_output_probes": probes_run, "rotl7_spec_rank": rot, "undecided_not_affine": undecided,
           "events_recorded": len(events), "exhaustive": not undecided,
           "exhaustive_scope": "rank 64 of the linear part of an affine map over GF(2)^64 decides bijectivity for all 2^64 inputs; affinity of the code's maps is sampled on random triples (a non-affine map is reported as undecided here and is C12's business)",
           "rule": "basis images f(e_i), f(0) of the three pool maps recorded from the real code through the hook; affinity triples; GF(2) rank with kernel-vector extraction inside TLC; a kernel vector is replayed on the code as a collision",
           "checker_cmd": "tlc -config spec/alg/ALG_Pool.cfg spec/alg/ALG_Pool.tla (TRACE=<extraction trace>)"}
    if undecided:
        print("NOTE property=C15 undecided for %s: the code's map is not affine on the sampled triples (see C12)" % undecided)
    vlib.write_evidence("C15", tier, seed, "model_checking", cov, JIT_ASSUME + ["affinity of the code's maps is sampled, not proved"], time.time() - t0, nviol)
    import shutil
    shutil.rmtree(wd, ignore_errors=True)
    return 1 if nviol else 0


# ---------------------------------------------------------------- C02 / C03
def step_weight(evs):
    w = 0
    for ev in evs:
        if ev.get("e") in ("from_seed", "seed_from_u64", "from_rng", "try_from_rng"):
            w += 300
        n = ev.get("n", 1)
        w += n if isinstance(n, int) else 1
    return w


def check_C02(tier, seed):
    S = corpora.block_alg_corpus("Hc128Rng", seed, tier, 32, 2200, 2)
    panic_candidates(S, ["Hc128Rng"], 250000 if tier == "quick" else 2500000, "C02", outputs=1500)     # about 2^32 keystream words in quick
    return trace_check("C02", tier, seed, S, "Trace_Alg.tla", "Trace_Alg.cfg", weight=step_weight, timeout=3400, release_every=6,
                       extra_runs=[("C02-veryfar", corpora.very_far_corpus(seed), "Trace_Pair", None, "o3chk"),
                                   ("C02-mixed", corpora.mixed_value_corpus("Hc128Rng", seed, tier), "Trace_Full", None)],
                       rule="Hc128Rng::from_seed + next_u32 on unit-bit seeds (every key and IV bit), structured seeds, random seeds x 32..96 words, and long runs of 2200 consecutive words (P phase, Q phase, every 16-word refill, the 1024-step wrap and into the second cycle); every word is compared by TLC with Wu's HC-128 written in paper form (Hc128.tla: W expansion, 1024 set-up steps, g1/g2/h1/h2, boxminus indices). distinct = distinct recorded events",
                       assumptions=COMMON_ASSUME + ["sampled seeds and positions < 2200: HC-128 is non-linear, agreement is established on the corpus, not for all 2^256 seeds; values are validated up to word 40 000; beyond that, up to past word 2^32 (optimised build with overflow checks), only that a keystream word is produced at all; the usize counter wrap is not reachable"])


def check_C03(tier, seed):
    t0 = time.time()
    parts, nviol = [], 0
    for kind, salt in (("IsaacRng", 3), ("Isaac64Rng", 33)):
        S = corpora.block_alg_corpus(kind, seed, tier, 256, 10240 if tier != "quick" else 1024, salt)
        panic_candidates(S, [kind], (10000000 if kind == "IsaacRng" else 4000000) if tier == "quick" else 40000000, "C03")
        ev, cs, res = run_trace("C03-" + kind, S, "Trace_Alg.tla", "Trace_Alg.cfg", weight=step_weight, timeout=3400)
        parts.append((ev, cs, res))
        nviol += report_rejections("C03", res["rejected"], S)
        Sm = corpora.mixed_value_corpus(kind, seed, tier)
        ev, cs, res = run_trace("C03-mixed-" + kind, Sm, "Trace_Full.tla", "Trace_Full.cfg", timeout=3400)
        parts.append((ev, cs, res))
        nviol += report_rejections("C03", res["rejected"], Sm)
        # every 6th case again with the optimised build (the statement has no build profile in it)
        sub = vlib.Sched()
        sub.cases = S.cases[::6]
        ev, cs, res = run_trace("C03-release-" + kind, sub, "Trace_Alg.tla", "Trace_Alg.cfg", weight=step_weight, timeout=3400, profile="release")
        parts.append((ev, cs, res))
        nviol += report_rejections("C03", res["rejected"], sub)
    cov = base_cov(parts, "IsaacRng / Isaac64Rng from_seed + native next on unit-bit seeds x the complete first block (all 256 indices), structured and random seeds x 3 blocks, long runs past word 10000 (thorough); every word compared by TLC with Jenkins' ISAAC / ISAAC-64 in reference shape (Isaac.tla: mix, randinit(TRUE) with zero-extended seed, isaac(), results consumed from the end); the golden-ratio pre-mix constants are derived in the spec. distinct = distinct recorded events", ["Trace_Alg"])
    vlib.write_evidence("C03", tier, seed, "model_checking", cov, COMMON_ASSUME + ["sampled seeds: ISAAC is non-linear; agreement is established on the corpus, not for all seeds"], time.time() - t0, nviol)
    return 1 if nviol else 0


# ---------------------------------------------------------------- C08 / C09
def run_alg(module, wd, env=None, timeout=1200, workers=1):
    r = vlib.run_tlc(os.path.join(vlib.SPEC, "alg", module + ".tla"), os.path.join(vlib.SPEC, "alg", module + ".cfg"),
                     os.path.join(wd, "meta_" + module), env=env, timeout=timeout, workers=workers, xmx="4g")
    if not r["completed"]:
        raise ToolError("%s did not complete cleanly (certificate / model level, not the code):\n%s" % (module, r["out"][-3000:]))
    return r


def run_mc(module, cfgname, wd, workers=6, timeout=1500, expect_violation=False):
    r = vlib.run_tlc(os.path.join(vlib.SPEC, "mc", module + ".tla"), os.path.join(vlib.SPEC, "mc", cfgname),
                     os.path.join(wd, "meta_" + os.path.basename(cfgname)), workers=workers, timeout=timeout, xmx="6g")
    if expect_violation:
        if "is violated" not in r["out"]:
            raise ToolError("negative control %s did not produce a counterexample" % cfgname)
    elif not r["completed"]:
        raise ToolError("%s/%s did not complete cleanly (model level, not the code):\n%s" % (module, cfgname, r["out"][-3000:]))
    return r


def check_C08(tier, seed):
    import re
    wd = vlib.workdir("mc-C08")
    mc = run_mc("MC_Seeding", "MC_Seeding.cfg", wd)
    run_mc("MC_Seeding", "neg/MC_Seeding_noremap.cfg", wd, expect_violation=True)
    alg = run_alg("ALG_Seed", wd)
    adv = [vlib.from_limbs([int(x) for x in m]) for m in re.findall(r'<<(\d+), (\d+), (\d+), (\d+)>>', " ".join(vlib.extract_tuples(alg["out"], "ADVERSARIAL")))]
    if len(adv) != 8:
        raise ToolError("ALG_Seed did not print the 8 adversarial arguments")
    S = corpora.c08_corpus(seed, tier, adv)
    return trace_check("C08", tier, seed, S, "Trace_Alg.tla", "Trace_Alg.cfg", weight=step_weight, release_every=3,
                       rule="(1) TLC explores the seeding protocol (module Seeding: zero-seed remap, redraw loop, fallible sources) exhaustively in a small world and checks NeverZeroState / ZeroSeedDocumented / NonZeroSeedVerbatim, with a negative control; (2) TLC checks the certificate that the SplitMix64 finalizer is a bijection with Mix(0)=0, so a seed word of seed_from_u64(x) is zero for exactly one x per position, and prints those 8 arguments; (3) on the real types: the all-zero seed of every size, almost-zero seeds, seed_from_u64 of the adversarial/neighbouring/random arguments, from_rng/try_from_rng from sources with 0..3 leading all-zero blocks — constructed state (serde image), == and first outputs validated by TLC against the same Seeding operators resolved with module Alg. distinct = distinct recorded events",
                       assumptions=COMMON_ASSUME + ["the protocol is explored exhaustively only in the small world (2-byte seeds over {0,1}); on the real types it is a corpus",
                                                    "the bijection certificate covers all 2^64 arguments of seed_from_u64 for the xoshiro family"],
                       extra_cov={"mc_model": {"states_generated": mc["states"], "distinct": mc["distinct"],
                                               "invariants": ["NeverZeroState", "ZeroSeedDocumented", "NonZeroSeedVerbatim", "ErrIffSourceFailed", "CursorAdvance", "RedrawOnlyOnZeroBlock"],
                                               "negative_control": "NoRemap=TRUE violates NeverZeroState"},
                                  "certificate": "ALG_Seed: stage ranks 64/64/64, multiplier inverses, Mix(0)=0, PHI odd, Mix(PHI)#0",
                                  "adversarial_u64": ["0x%016x" % a for a in adv]})


def check_C09(tier, seed):
    wd = vlib.workdir("mc-C09")
    mc = run_mc("MC_Seeding", "MC_Seeding.cfg", wd)
    S = corpora.c09_corpus(seed, tier)
    return trace_check("C09", tier, seed, S, "Trace_Alg.tla", "Trace_Alg.cfg", weight=step_weight, timeout=3400, release_every=4,
                       rule="the seeding protocol is model-checked exhaustively in a small world (ErrIffSourceFailed, CursorAdvance, RedrawOnlyOnZeroBlock, from_rng/try_from_rng agreement); on all 19 seedable types: seed_from_u64(x) for boundary and random x must give the generator denoted by the documented expansion (SplitMix64 stream / rand_core's PCG32 / ISAAC key words with one pass) — state image where available and 8..40 outputs; from_rng twice from one source (cursor, exact byte count, 1024/2048 bytes and two passes for ISAAC); try_from_rng against sources failing at call 1/2/3, with partial writes and sticky failures. distinct = distinct recorded events",
                       assumptions=COMMON_ASSUME + ["u64 arguments and source byte streams are a corpus; the fallible-source space is exhaustive only in the small-world model"],
                       extra_cov={"mc_model": {"states_generated": mc["states"], "distinct": mc["distinct"]}})


# ---------------------------------------------------------------- C10 / C11
def api_node_paths(tier, wd, names):
    import cover
    mc = run_api_mc(tier, wd)
    out = {}
    kindof = {"Hc128": "Hc128Rng", "Isaac": "IsaacRng", "Isaac64": "Isaac64Rng"}
    for name in names:
        r, edges = mc[name]
        init, g = cover.project(edges, True)
        out[kindof[name]] = cover.node_paths(init, g)
    return mc, out


def check_C10(tier, seed):
    import random
    t0 = time.time()
    wd = vlib.workdir("mc-C10")
    mc, paths = api_node_paths(tier, wd, ["Hc128", "Isaac", "Isaac64"])
    ce = run_mc("MC_CloneEq", "MC_CloneEq_Hc128_q.cfg" if tier == "quick" else "MC_CloneEq_Hc128.cfg", wd, workers=8)
    run_mc("MC_CloneEq", "neg/MC_CloneEq_Hc128_noindex.cfg", wd, workers=2, expect_violation=True)
    S = corpora.c10_corpus(seed, tier, paths)
    parts, nviol = [], 0
    ev, cs, res = run_trace("C10", S, "Trace_Pair.tla", "Trace_Pair.cfg")
    parts.append((ev, cs, res))
    nviol += report_rejections("C10", res["rejected"], S)
    # second phase: perturbed snapshots need images produced by the code itself
    binp = vlib.build_harness()
    sp, tp = os.path.join(wd, "img_s.ndjson"), os.path.join(wd, "img_t.ndjson")
    rng = random.Random(seed + 1010)
    ops = [{"op": "reset"}]
    for i, kind in enumerate(("IsaacCore", "Isaac64Core")):
        ops += [{"op": "from_seed", "g": i + 1, "kind": kind, "seed": [rng.getrandbits(8) for _ in range(32)]},
                {"op": "generate", "g": i + 1}, {"op": "ser", "g": i + 1}]
    vlib.write_ndjson(sp, ops)
    vlib.drive(binp, sp, tp)
    images = {}
    for e in vlib.read_ndjson(tp):
        if e.get("e") == "ser" and "image" in e:
            images["IsaacCore" if e["g"] == 1 else "Isaac64Core"] = e["image"]
    if len(images) != 2:
        raise ToolError("could not obtain serde images of the ISAAC cores (serde feature off?)")
    S2 = corpora.c10_perturbed(images, rng)
    ev, cs, res = run_trace("C10b", S2, "Trace_Pair.tla", "Trace_Pair.cfg")
    parts.append((ev, cs, res))
    nviol += report_rejections("C10", res["rejected"], S2)
    # far positions (past 2^8 and 2^16 blocks / words): lock-stepped generators and clones made out there
    Sf = corpora.far_corpus(seed, tier)
    ev, cs, res = run_trace("C10-far", Sf, "Trace_Pair.tla", "Trace_Pair.cfg")
    parts.append((ev, cs, res))
    nviol += report_rejections("C10", res["rejected"], Sf)
    # third phase: soundness of the hand-written == on big states cannot be sampled by random pairs (a
    # comparison that folds the state collides with probability 2^-32); the harness searches for two different
    # seeds among n that compare equal, and any pair found is then driven in lock-step like every other pair
    nsearch = 60000 if tier == "quick" else 200000
    sops = [{"op": "reset"}]
    for kind in ("Hc128Rng", "Hc128Core", "IsaacCore", "Isaac64Core"):
        sops.append({"op": "eq_search", "kind": kind, "n": nsearch if kind.startswith("Hc") else nsearch // 4, "seed_len": 32, "threads": 14})
    vlib.write_ndjson(sp, sops)
    vlib.drive(vlib.build_harness("release", True), sp, tp, timeout=3000)     # optimised build: a folding == has no early exit
    S3 = vlib.Sched()
    searched = {}
    for e in vlib.read_ndjson(tp):
        if e.get("e") != "eq_search":
            continue
        searched[e["kind"]] = e.get("searched")
        for a, b in e.get("pairs", []):
            k = e["kind"]
            sa, sb = list(a.to_bytes(8, "little")) + [0] * 24, list(b.to_bytes(8, "little")) + [0] * 24
            ops = [{"op": "from_seed", "g": 1, "kind": k, "seed": sa}, {"op": "from_seed", "g": 2, "kind": k, "seed": sb}, {"op": "eq", "a": 1, "b": 2}]
            ops += corpora.lockstep([("generate", 0), ("generate", 0)] if k.endswith("Core") else [("next_u32", 0), ("next_u64", 0), ("fill_bytes", 70)], [1, 2])
            S3.case("%s seeds %d and %d compare equal" % (k, a, b), ops)
    if S3.cases:
        ev, cs, res = run_trace("C10c", S3, "Trace_Pair.tla", "Trace_Pair.cfg")
        parts.append((ev, cs, res))
        nviol += report_rejections("C10", res["rejected"], S3)
    cov = base_cov(parts, "clone at buffer positions taken from TLC's state graph of the API machine (every index of the 16-word buffer; a sample of the 256-word buffers in quick, all in thorough), then == and lock-step execution of original and clone across >= 1 refill with mixed next_u32/next_u64/fill_bytes and jump/long_jump; pairs built to be almost equal (one step apart, one seed bit apart, same block other read position, serde snapshots with exactly one field of an ISAAC core perturbed, IsaacArray pairs differing in one element). The monitor Trace_Pair rejects only observed contradictions: lock-step divergence inside a class formed by clone / == true, or == false inside such a class. distinct = distinct recorded events", ["Trace_Pair"])
    cov["mc_models"] = {n: {"states_generated": r["states"], "edges": len(e)} for n, (r, e) in mc.items() if n in ("Hc128", "Isaac", "Isaac64")}
    cov["eq_collision_search"] = {"generators_compared_pairwise": searched, "pairs_found_equal": len(S3.cases)}
    cov["mc_models"]["CloneEq (two instances, Hc128Rng's hand-written ==: core and index)"] = {
        "states_generated": ce["states"], "distinct": ce["distinct"], "invariants": ["EqIsCongruence", "CloneIsEqual", "RestoreIsIdentical", "SerDoesNotDisturb"],
        "negative_control": "EqMode=core_only (index dropped) violates EqIsCongruence"}
    vlib.write_evidence("C10", tier, seed, "model_checking", cov, COMMON_ASSUME[:2] + ["completeness of == is not required; an alarm needs an observed divergence or an observed == false between clone/lock-stepped generators"], time.time() - t0, nviol)
    return 1 if nviol else 0


def check_C11(tier, seed):
    t0 = time.time()
    wd = vlib.workdir("mc-C11")
    mc, paths = api_node_paths(tier, wd, ["Isaac", "Isaac64"])
    ce = run_mc("MC_CloneEq", "MC_CloneEq_Isaac64.cfg", wd, workers=8)
    run_mc("MC_CloneEq", "neg/MC_CloneEq_Isaac64_nohalf.cfg", wd, workers=2, expect_violation=True)
    S = corpora.c11_corpus(seed, tier, paths)
    # points of the stream that cannot be reached by running: the ISAAC block counter c just before it wraps (after
    # 2^32 resp. 2^64 blocks).  A recorded image of each generator gets c := all ones (and all ones - 1), is loaded, run
    # over the block boundary (c becomes 0 resp. all ones) and snapshotted there like everywhere else.
    import random
    rng = random.Random(seed + 1111)
    binp = vlib.build_harness()
    sp, tp = os.path.join(wd, "img_s.ndjson"), os.path.join(wd, "img_t.ndjson")
    kinds2 = ("IsaacRng", "Isaac64Rng")
    ops = [{"op": "reset"}]
    for i, kind in enumerate(kinds2):
        ops += [{"op": "from_seed", "g": i + 1, "kind": kind, "seed": [rng.getrandbits(8) for _ in range(32)]}, {"op": "next_u32", "g": i + 1, "n": 5}, {"op": "ser", "g": i + 1, "want_json": True}]
    vlib.write_ndjson(sp, ops)
    vlib.drive(binp, sp, tp)
    for e in vlib.read_ndjson(tp):
        if e.get("e") == "ser" and "json" in e:
            # words that no reachable run shows within minutes: a buffered result (or a word of the memory) that is 0.
            # The JSON snapshot the code wrote gets zeros planted in its 256-element lists (whatever they are called and
            # wherever they are), is loaded, and is then snapshotted and restored like every other generator.
            kind = kinds2[e["g"] - 1]
            try:
                doc = json.loads(e["json"])
            except ValueError:
                doc = None
            lists = []

            def walk(x, path):
                if isinstance(x, list) and len(x) == 256 and all(isinstance(v, int) for v in x):
                    lists.append(path)
                elif isinstance(x, dict):
                    for k, v in x.items():
                        walk(v, path + [k])
                elif isinstance(x, list):
                    for k, v in enumerate(x):
                        walk(v, path + [k])
            walk(doc, [])
            for li, path in enumerate(lists):
                for where in ([6], [100], [254], [255], [0], [7, 200], [253, 254, 255]):
                    d2 = json.loads(e["json"])
                    tgt = d2
                    for k in path:
                        tgt = tgt[k]
                    for w in where:
                        tgt[w] = 0
                    cops = [{"op": "de_image", "kind": kind, "json": json.dumps(d2), "to": 1}, {"op": "clone", "g": 1, "to": 4}, {"op": "ser", "g": 1},
                            {"op": "de", "g": 1, "to": 2, "fmt": "bincode"}, {"op": "de", "g": 1, "to": 3, "fmt": "json"}, {"op": "de", "g": 1, "to": 9, "fmt": "embedded"},
                            {"op": "eq", "a": 1, "b": 2}, {"op": "eq", "a": 1, "b": 3}]
                    cops += corpora.lockstep([("next_u32", 0)] * 3 + [("next_u64", 0)] * (130 if kind == "IsaacRng" else 260) + [("next_u32", 0), ("fill_bytes", 1030 if kind == "IsaacRng" else 2060), ("next_u32", 0)], [1, 4, 2, 3, 9])
                    cops += [{"op": "ser", "g": 2}, {"op": "de", "g": 2, "to": 5, "fmt": "json"}]
                    cops += corpora.lockstep([("next_u32", 0), ("next_u64", 0)], [2, 5])
                    S.case("%s snapshot of a state with 0 planted at %s of 256-element list #%d" % (kind, where, li), cops, weight=900)
    for e in vlib.read_ndjson(tp):
        if e.get("e") == "ser" and "image" in e:
            kind = kinds2[e["g"] - 1]
            wb = 4 if kind == "IsaacRng" else 8
            coff = len(e["image"]) - wb                 # c is the last field of the core, the core the last field of the wrapper
            for dec in (0, 1):
                img = list(e["image"])
                img[coff:coff + wb] = list(((1 << (8 * wb)) - 1 - dec).to_bytes(wb, "little"))
                cops = [{"op": "de_image", "kind": kind, "image": img, "to": 1}]
                cops += [{"op": "next_u32", "g": 1, "n": 255 if kind == "IsaacRng" else 2 * 255}]       # into the next block: c has advanced by one
                cops += [{"op": "clone", "g": 1, "to": 4}, {"op": "ser", "g": 1}, {"op": "de", "g": 1, "to": 2, "fmt": "bincode"}, {"op": "de", "g": 1, "to": 3, "fmt": "json"},
                         {"op": "eq", "a": 1, "b": 2}]
                cops += corpora.lockstep([("next_u32", 0), ("next_u64", 0), ("fill_bytes", 1030 if kind == "IsaacRng" else 2060), ("next_u32", 0)], [1, 4, 2, 3])
                cops += [{"op": "ser", "g": 2}, {"op": "de", "g": 2, "to": 5, "fmt": "bincode"}]
                cops += corpora.lockstep([("next_u32", 0), ("next_u64", 0)], [2, 5])
                S.case("%s snapshot with the block counter at its wrap (c = max - %d before the block)" % (kind, dec), cops, weight=600)
    ev, cs, res = run_trace("C11", S, "Trace_Pair.tla", "Trace_Pair.cfg")
    nviol = report_rejections("C11", res["rejected"], S)
    cov = base_cov([(ev, cs, res)], "ISAAC snapshots with the block counter at its wrap (images with c patched to its maximum, run over the block boundary); for the 18 serializable types: snapshot (bincode and serde_json) at buffer states taken from TLC's state graph of the API machine (index x half_used of IsaacRng / Isaac64Rng, after refills) and after random histories and jumps of the plain types; the restored generators, the original and a clone taken before serializing are then driven in lock-step across >= 1 refill with mixed operations (and ==, and a second round trip); Trace_Pair rejects any observed divergence, a failed deserialization, or == false between original and restored. distinct = distinct recorded events", ["Trace_Pair"])
    cov["mc_models"] = {n: {"states_generated": r["states"], "edges": len(e)} for n, (r, e) in mc.items() if n in ("Isaac", "Isaac64")}
    cov["mc_models"]["CloneEq (two instances of a BlockRng64 machine with Ser/De)"] = {
        "states_generated": ce["states"], "distinct": ce["distinct"], "invariants": ["RestoreIsIdentical", "SerDoesNotDisturb", "EqIsCongruence", "CloneIsEqual"],
        "negative_control": "SerMode=nohalf (half_used not serialized) violates RestoreIsIdentical"}
    vlib.write_evidence("C11", tier, seed, "model_checking", cov, COMMON_ASSUME[:2] + ["harness built with the serde features of rand_xoshiro / rand_xorshift / rand_isaac; bincode 1.3 and serde_json as the two data formats"], time.time() - t0, nviol)
    return 1 if nviol else 0


# ---------------------------------------------------------------- C17
def check_C17(tier, seed):
    import cover
    t0 = time.time()
    wd = vlib.workdir("mc-C17")
    mc = run_api_mc(tier, wd)
    walks = {}
    for name, kind in (("Hc128", "Hc128Rng"), ("Isaac", "IsaacRng"), ("Isaac64", "Isaac64Rng")):
        init, g = cover.project(mc[name][1], True)
        few = lambda s, e: (e[0] != "fill_bytes" or e[1] <= 9) and (s == ("init", 0) or s[0] % 16 in (0, 15) or s[0] < 4)
        walks[kind] = cover.cover_walks(init, g, few, max_walk=40)
    S = corpora.c17_corpus(seed, tier, walks)
    special_value_cases(S, seed, debug=True)
    # scan: the Debug text of freshly seeded generators (and after one block) over millions of counter seeds, natively
    # in the optimised harness; seeds whose text differs from the majority are put next to an ordinary seed in an
    # ordinary case, so that Trace_Debug decides
    rel = vlib.build_harness("release", True)
    sp, tp = os.path.join(wd, "scan.s"), os.path.join(wd, "scan.t")
    big = tier != "quick"
    plan = [("Hc128Rng", 6000000 if not big else 40000000, 0), ("Hc128Core", 500000, 0), ("XorShiftRng", 4000000 if not big else 40000000, 0),
            ("IsaacRng", 700000 if not big else 6000000, 0), ("Isaac64Rng", 700000 if not big else 6000000, 0),
            ("IsaacCore", 200000, 0), ("Isaac64Core", 200000, 0), ("Hc128Rng", 300000, 17), ("IsaacRng", 100000, 300), ("Isaac64Rng", 100000, 300)]
    vlib.write_ndjson(sp, [{"op": "reset"}] + [{"op": "debug_scan", "kind": kd, "n": n, "seed_len": corpora.SEEDLEN[kd], "advance": adv, "threads": 14} for kd, n, adv in plan])
    vlib.drive(rel, sp, tp, timeout=3000)
    scanned = {}
    for e in vlib.read_ndjson(tp):
        if e.get("e") != "debug_scan":
            continue
        scanned["%s+%d" % (e["kind"], e.get("advance", 0))] = e.get("scanned")
        tx = e.get("texts", [])
        if len(tx) > 1:
            kd, adv = e["kind"], e.get("advance", 0)
            nat = corpora.native_op(kd) if kd in corpora.WORDBYTES else None
            ops = []
            for gi, t in enumerate(tx[:4]):
                k0 = t["seeds"][0]
                sd = (list(k0.to_bytes(8, "little")) + [0] * corpora.SEEDLEN[kd])[:corpora.SEEDLEN[kd]]
                ops.append({"op": "from_seed", "g": gi + 1, "kind": kd, "seed": sd})
                if adv and nat:
                    ops += [{"op": "next_u32", "g": gi + 1} for _ in range(adv)]
                ops.append({"op": "debug", "g": gi + 1})
            S.case("%s seeds with different Debug texts (found by the scan)" % kd, ops)
    ev, cs, res = run_trace("C17", S, "Trace_Debug.tla", "Trace_Debug.cfg", nshards=8)
    nviol = report_rejections("C17", res["rejected"], S)
    texts = sorted({e["text"] for e in ev if e.get("e") == "debug"})
    cov = base_cov([(ev, cs, res)], "{:?} and {:#?} of XorShiftRng, Hc128Rng/Hc128Core, IsaacRng/IsaacCore, Isaac64Rng/Isaac64Core and JitterRng are recorded after every operation of walks taken from TLC's state graph of the API machine and of random walks, each walk under several seeds (incl. all-zero and all-ones) resp. timer scripts; Trace_Debug learns an uninterpreted DebugFn keyed by (kind, format, history) and, for buffered types, by (kind, format, index, half_used) computed by the API machine, and rejects a second, different text for a key. distinct = distinct recorded events", ["Trace_Debug"])
    cov["distinct_debug_texts"] = len(texts)
    cov["debug_scan_seeds_per_kind"] = scanned
    cov["debug_text_samples"] = texts[:6]
    vlib.write_evidence("C17", tier, seed, "model_checking", cov, COMMON_ASSUME[:2] + ["state leakage is detected as seed-dependence of the text: every history is run under >= 5 seeds / timer scripts; content that does not depend on seed or state is not state"], time.time() - t0, nviol)
    return 1 if nviol else 0


# ---------------------------------------------------------------- C19
def parse_scheds(out):
    import re
    res = []
    for t in vlib.extract_tuples(out, "SCHED"):
        steps = re.findall(r'<<(\d+), (\d+), "(\w+)">>', t)
        if steps:
            res.append([(int(g), int(th), op) for g, th, op in steps])
    return res


def c19_general_cases(seed, tier):
    """Cases for the direct statement of C19: the events of an instance in an interleaved run (other instances on
    other threads, unscripted background load) must be the events of the same operations run ALONE in a process of
    their own - for any operation, not only stream outputs: jumps, clone, serde round trips, test_timer, constructors
    after another instance's constructor failed.  Each case: {"label", "solo": {g: ops}, "inter": ops}."""
    import random
    rng = random.Random(seed * 1000003 + 1909)
    cases = []

    def merge(seqs, head=()):
        """random merge of the per-instance op lists, alternating threads"""
        seqs = {g: list(v) for g, v in seqs.items()}
        out = list(head)
        th = 1
        while any(seqs.values()):
            g = rng.choice([g for g, v in seqs.items() if v])
            o = dict(seqs[g].pop(0))
            if o["op"] not in ("timer", "src"):
                o["th"] = th
                th = 3 - th
            out.append(o)
        return out
    # (a) jump-capable types, two instances whose states are related (identical / same low halves / same high halves)
    for kind in corpora.XO_JUMP:
        wb = corpora.WORDBYTES[kind]
        L = corpora.SEEDLEN[kind]
        base = [rng.getrandbits(8) | 1 for _ in range(L)]
        variants = {"identical": list(base),
                    "same low halves": [b if (i % wb) < wb // 2 else b ^ 0x5A for i, b in enumerate(base)],
                    "same high halves": [b if (i % wb) >= wb // 2 else b ^ 0xA5 for i, b in enumerate(base)]}
        for name, sd2 in (variants.items() if tier != "quick" else list(variants.items())[ord(kind[-1]) % 3:][:1] + [("same low halves", variants["same low halves"])]):
            # the jumps come first: the relation between the two states holds at construction only
            walk = [("jump", 0), ("next_u64", 0), ("long_jump", 0), ("next_u32", 0), ("fill_bytes", 9), ("jump", 0), ("next_u64", 0)] if name != "identical" else \
                   [("next_u64", 0), ("jump", 0), ("next_u32", 0), ("long_jump", 0), ("next_u64", 0), ("fill_bytes", 9), ("long_jump", 0), ("next_u64", 0)]
            solo = {}
            for g, sd in ((1, base), (2, sd2)):
                solo[g] = [{"op": "from_seed", "g": g, "kind": kind, "seed": sd}] + [corpora.opj(e, g) for e in walk]
            cases.append({"label": "%s jumps, second state %s" % (kind, name), "solo": solo, "inter": merge(solo), "bg": [kind]})
    # (b) a constructor of another instance fails (source error after a partial write) before / between
    for kind in corpora.ALL_SEEDABLE:
        n = corpora.FROMRNG_LEN.get(kind, corpora.SEEDLEN[kind])
        good = [rng.getrandbits(8) | 1 for _ in range(2 * n)]
        solo = {1: [{"op": "src", "s": 1, "bytes": good, "fallible": True}, {"op": "try_from_rng", "g": 1, "kind": kind, "s": 1},
                    {"op": "next_u32", "g": 1}, {"op": "next_u64", "g": 1}, {"op": "fill_bytes", "g": 1, "n": 11}],
                2: [{"op": "from_seed", "g": 2, "kind": kind, "seed": [0] * corpora.SEEDLEN[kind]}, {"op": "next_u64", "g": 2}, {"op": "next_u32", "g": 2}]}
        bad = [{"op": "src", "s": 9, "bytes": [0xEE] * (2 * n), "fallible": True, "fail_at": 1, "partial": max(1, n - 3)},
               {"op": "try_from_rng", "g": 9, "kind": kind, "s": 9, "th": 2}]
        cases.append({"label": "%s constructed after another instance's try_from_rng failed" % kind, "solo": solo, "inter": merge(solo, head=bad), "bg": [kind]})
    # (d) a neighbour of the same type produces 65 530 values first, 20 more in the middle (a process-wide count of
    # outputs / collections passes 2^16 while the instance under observation is at work)
    for kind in (["JitterRng", "Hc128Rng", "IsaacRng", "Isaac64Rng", "XorShiftRng", "Xoshiro256PlusPlus", "SplitMix64"] if tier == "quick" else ["JitterRng"] + corpora.ALL_SEEDABLE):
        def mk(g, salt):
            if kind == "JitterRng":
                return [{"op": "timer", "t": g, "readings": [vlib.u64(1000 + 17 * salt)], "cont": [vlib.u64(97 + salt), vlib.u64(1013), vlib.u64(331 + 2 * salt), vlib.u64(1999), vlib.u64(53)]},
                        {"op": "jit_new", "g": g, "t": g}, {"op": "set_rounds", "g": g, "r": 1}]
            return [{"op": "from_seed", "g": g, "kind": kind, "seed": [(salt * 31 + i * 7 + 1) & 0xFF for i in range(corpora.SEEDLEN[kind])]}]
        wbk = 8 if kind == "JitterRng" else corpora.WORDBYTES[kind]
        via = "u64" if wbk == 8 else "u32"
        a_ops = mk(1, 1) + [{"op": "skip", "g": 1, "bytes": 65530 * wbk, "via": via}]
        b_ops = mk(2, 2) + [{"op": "next_u64", "g": 2} for _ in range(12)] + [{"op": "fill_bytes", "g": 2, "n": 9 * wbk}, {"op": "next_u32", "g": 2}]
        inter = [dict(o, th=1) if o["op"] not in ("timer",) else o for o in a_ops]
        inter += [dict(o, th=2) if o["op"] not in ("timer",) else o for o in b_ops[:len(mk(2, 2)) + 6]]
        inter += [{"op": "skip", "g": 1, "bytes": 20 * wbk, "via": via, "th": 1}]
        inter += [dict(o, th=1) for o in b_ops[len(mk(2, 2)) + 6:]]
        solo = {2: b_ops, 1: a_ops + [{"op": "skip", "g": 1, "bytes": 20 * wbk, "via": via}]}
        cases.append({"label": "%s next to a neighbour that has produced 65 530 values" % kind, "solo": solo, "inter": inter, "bg": [kind]})
    # (e) a neighbour JitterRng whose clock stands still for 2^20 + 1000 measurements in the middle of one collection
    # (it gets through, as it must); the instance under observation has short stalls of its own afterwards
    if True:
        t = rng.getrandbits(40) + (1 << 34)
        rdA = [t]
        for k in range(6):
            t += 59 + 14 * k
            rdA += [t - 1, t, t + 1]
        nA = len(rdA)
        for k in range(40):
            t += 131 + 17 * k + (k * k) % 7
            rdA += [t - 1, t, t + 1]
        a_ops = [{"op": "timer", "t": 1, "readings": [vlib.u64(x) for x in rdA], "cont": corpora.CONT, "stall": {"at": nA, "count": 3 * ((1 << 20) + 1000)}},
                 {"op": "jit_new", "g": 1, "t": 1}, {"op": "set_rounds", "g": 1, "r": 2}, {"op": "skip", "g": 1, "bytes": 24, "via": "u64"}]
        t = rng.getrandbits(40) + (1 << 34)
        rdB = [t]
        for k in range(120):
            t += (0 if 20 <= k < 26 or 50 <= k < 53 else 71 + 13 * k + (k * k) % 5)
            rdB += [t, t, t] if (20 <= k < 26 or 50 <= k < 53) else [t - 1, t, t + 1]
        b_ops = [{"op": "timer", "t": 2, "readings": [vlib.u64(x) for x in rdB], "cont": corpora.CONT}, {"op": "jit_new", "g": 2, "t": 2}, {"op": "set_rounds", "g": 2, "r": 3}] + \
                [{"op": "next_u64", "g": 2} for _ in range(6)]
        inter = [dict(o, th=1) if o["op"] != "timer" else o for o in a_ops] + [dict(o, th=2) if o["op"] != "timer" else o for o in b_ops]
        cases.append({"label": "JitterRng next to a neighbour whose clock stood still for 2^20 measurements", "solo": {1: a_ops, 2: b_ops}, "inter": inter, "bg": ["JitterRng"]})
    # (f) JitterRng neighbours that are dropped (or replaced by clone_from) while they still owe the high half of a value
    for variant in ("drop", "clone_from"):
        def jit(g, salt):
            sc = corpora.jitter_script(random.Random(seed * 7 + salt), [("random", 500)])
            return [{"op": "timer", "t": g, "readings": [vlib.u64(x) for x in sc], "cont": corpora.CONT}, {"op": "jit_new", "g": g, "t": g}, {"op": "set_rounds", "g": g, "r": 2}]
        a_ops = jit(1, 1) + [{"op": "next_u64", "g": 1}, {"op": "next_u32", "g": 1}, {"op": "next_u32", "g": 1}, {"op": "next_u32", "g": 1}, {"op": "fill_bytes", "g": 1, "n": 3}, {"op": "next_u64", "g": 1}]
        b_ops = jit(2, 2) + [{"op": "next_u32", "g": 2}] + ([{"op": "drop", "g": 2}] if variant == "drop" else jit(3, 3) + [{"op": "clone_from", "g": 2, "from": 3}, {"op": "drop", "g": 2}])
        na = len(jit(1, 1))
        inter = [dict(o, th=1) if o["op"] != "timer" else o for o in a_ops[:na + 1]] + [dict(o, th=2) if o["op"] not in ("timer",) else o for o in b_ops] + \
                [dict(o, th=1) for o in a_ops[na + 1:]]
        cases.append({"label": "JitterRng next to a neighbour that is %s while it owes a half" % ("dropped" if variant == "drop" else "overwritten"), "solo": {1: a_ops}, "inter": inter, "bg": ["Xoshiro256PlusPlus"]})
    # (g) the same few seeds constructed again and again (the all-zero seed, seed_from_u64(0), one fixed seed) while the
    # unscripted background constructs generators of the same type from the same and from other seeds on several threads
    for kind in corpora.ALL_SEEDABLE:
        fixed = [(i * 29 + 3) & 0xFF for i in range(corpora.SEEDLEN[kind])]
        ops1 = []
        for r in range(60 if tier == "quick" else 240):
            ctor = [{"op": "from_seed", "g": 1, "kind": kind, "seed": [0] * corpora.SEEDLEN[kind]}, {"op": "seed_from_u64", "g": 1, "kind": kind, "x": vlib.u64(0)},
                    {"op": "from_seed", "g": 1, "kind": kind, "seed": fixed}][r % 3]
            ops1 += [ctor, {"op": "next_u64", "g": 1}, {"op": "next_u32", "g": 1}]
        cases.append({"label": "%s constructed repeatedly from recurring seeds under concurrent construction" % kind, "solo": {1: ops1},
                      "inter": [dict(o, th=1 + (i // 3) % 2) for i, o in enumerate(ops1)], "bg": [kind], "bg_threads": 8})
    # (h) generators constructed in tight loops on 8 threads at once from a handful of recurring seeds (thousands of
    # constructions); alone: the same seeds on one thread.  Recorded: per seed the set of distinct output digests.
    for kind in corpora.ALL_SEEDABLE:
        L = corpora.SEEDLEN[kind]
        seeds = [[0] * L, [(i * 29 + 3) & 0xFF for i in range(L)]] + [[rng.getrandbits(8) for _ in range(L)] for _ in range(4)]
        heavy = kind in ("IsaacRng", "Isaac64Rng", "Hc128Rng")
        rounds = (2500 if heavy else 20000) if tier == "quick" else (20000 if heavy else 200000)
        cases.append({"label": "%s constructed in tight loops on 8 threads" % kind,
                      "solo": {1: [{"op": "par_ctor", "g": 1, "kind": kind, "seeds": seeds, "rounds": 12, "sequential": True}]},
                      "inter": [{"op": "par_ctor", "g": 1, "kind": kind, "seeds": seeds, "rounds": rounds, "th": 1}], "bg": [kind], "bg_threads": 2})
    # (i) a neighbour JitterRng over a clock that ticks in steps (every reading a multiple of 4, 8, 24, 4096) has its
    # timer tested and accepted and produces values; the instance under observation, over a lively clock of its own,
    # works before, in between and afterwards (what one instance learns about ITS timer is nobody else's business)
    for step in (4, 8, 24, 4096):
        r2 = random.Random(seed * 31 + step)
        t = (r2.getrandbits(36) + (1 << 20)) * step
        rdN = []
        for i in range(2600):
            t += step * r2.randrange(1, 1 << r2.choice([5, 9, 12]))
            rdN.append(t)
        n_ops = [{"op": "timer", "t": 2, "readings": [vlib.u64(x) for x in rdN], "cont": [vlib.u64(step * c) for c in (97, 1013, 331, 1999, 53)]},
                 {"op": "jit_new", "g": 2, "t": 2}, {"op": "test_timer", "g": 2, "then_set": True}, {"op": "next_u64", "g": 2}, {"op": "next_u32", "g": 2},
                 {"op": "test_timer", "g": 2}, {"op": "next_u64", "g": 2}]
        sc = corpora.jitter_script(r2, [("random", 900)])
        a_ops = [{"op": "timer", "t": 1, "readings": [vlib.u64(x) for x in sc], "cont": corpora.CONT}, {"op": "jit_new", "g": 1, "t": 1}, {"op": "set_rounds", "g": 1, "r": 2},
                 {"op": "next_u64", "g": 1}, {"op": "next_u32", "g": 1}] + [{"op": "next_u64", "g": 1} for _ in range(5)] + [{"op": "fill_bytes", "g": 1, "n": 13}, {"op": "timer_stats", "g": 1, "var": True}, {"op": "next_u64", "g": 1}]
        na = 5
        inter = [dict(o, th=1) if o["op"] != "timer" else o for o in a_ops[:na]] + [dict(o, th=2) if o["op"] != "timer" else o for o in n_ops[:5]] + \
                [dict(o, th=1) for o in a_ops[na:na + 3]] + [dict(o, th=2) for o in n_ops[5:]] + [dict(o, th=1) for o in a_ops[na + 3:]]
        cases.append({"label": "JitterRng next to a neighbour whose accepted clock ticks in steps of %d" % step, "solo": {1: a_ops, 2: n_ops}, "inter": inter, "bg": ["JitterRng"]})
    # (j) the very first constructions of a type in a process, made on 16 threads at the same moment (whatever a type
    # sets up on first use): repeated in fresh processes; alone: the same seeds one after the other
    for kind in corpora.ALL_SEEDABLE:
        L = corpora.SEEDLEN[kind]
        seeds = [[(i * 29 + 3) & 0xFF for i in range(L)], [0] * L] + [[rng.getrandbits(8) for _ in range(L)] for _ in range(2)]
        cases.append({"label": "%s: the first constructions of a process on 16 threads at once" % kind,
                      "solo": {1: [{"op": "par_ctor", "g": 1, "kind": kind, "seeds": seeds, "rounds": 8, "sequential": True}]},
                      "inter": [{"op": "par_ctor", "g": 1, "kind": kind, "seeds": seeds, "rounds": 8, "threads": 16}], "bg": [kind], "bg_threads": 0,
                      "fresh": 8 if tier == "quick" else 40})
    # (c) JitterRng::new() (process-wide cache) before the test_timer of an instance with a hopeless timer of its own
    for style, step in (("constant step", [25]), ("multiples of 100", [100, 300, 200]), ("lively", None)):
        t = rng.getrandbits(40) + 1
        rd = []
        for i in range(1700):
            t += (step[i % len(step)] if step else rng.randrange(1, 1 << rng.choice([6, 10, 16])))
            rd.append(t)
        solo = {1: [{"op": "timer", "t": 1, "readings": [vlib.u64(x) for x in rd], "cont": corpora.CONT}, {"op": "jit_new", "g": 1, "t": 1},
                    {"op": "test_timer", "g": 1}, {"op": "next_u32", "g": 1}]}
        cases.append({"label": "JitterRng::new() elsewhere, then test_timer over a timer of its own (%s)" % style, "solo": solo,
                      "inter": [{"op": "jit_std_new", "th": 2}] + merge(solo) + [{"op": "jit_std_new", "th": 1}], "bg": ["JitterRng"]})
    return cases


def check_C19(tier, seed):
    import subprocess
    t0 = time.time()
    wd = vlib.workdir("mc-C19")
    mc = run_mc("MC_Instances", "MC_Instances.cfg", wd, workers=4)
    run_mc("MC_Instances", "neg/MC_Instances_global.cfg", wd, workers=2, expect_violation=True)
    run_mc("MC_Instances", "neg/MC_Instances_tls.cfg", wd, workers=2, expect_violation=True)
    gen = run_mc("MC_Instances", "MC_Instances_gen.cfg", wd, workers=1)
    scheds = parse_scheds(gen["out"])
    if len(scheds) < 100:
        raise ToolError("MC_Instances_gen produced only %d interleavings" % len(scheds))
    nviol = 0
    # Send / Sync: a compile-time fact, checked by compiling the static assertions separately
    vlib.build_harness()
    p = subprocess.run(["cargo", "build", "--offline", "--quiet", "--bin", "sendsync"], cwd=vlib._harness_dir(),
                       env=dict(os.environ, CARGO_NET_OFFLINE="true"), stdout=subprocess.PIPE, stderr=subprocess.STDOUT, text=True)
    sendsync_ok = p.returncode == 0
    if not sendsync_ok:
        if "Send" in p.stdout or "Sync" in p.stdout:
            path = vlib.write_replay("C19", {"property": "C19", "case": "Send/Sync static assertion", "signature": "sendsync",
                                             "compiler_output": p.stdout[-3000:], "how": "cd /verif/harness && cargo build --offline --bin sendsync"})
            print("VIOLATION property=C19 replay=%s" % path)
            print("  a generator type is no longer Send + Sync: " + p.stdout[-600:].replace("\n", " | "))
            nviol += 1
        else:
            raise ToolError("sendsync did not compile for an unrelated reason:\n" + p.stdout[-2000:])
    S = corpora.c19_corpus(seed, tier, scheds)
    parts = []
    # Every instance's SOLO run (its twin) is executed in a process of its own, so that nothing another
    # generator did can have influenced it; the interleaved runs of all cases share ONE process.
    import concurrent.futures
    binp = vlib.build_harness()
    swd = vlib.workdir("run-C19")
    jobs = []
    for c in S.cases:
        for k, sops in enumerate(c["solo"]):
            jobs.append((c["id"], k, sops))

    def solo_run(job):
        cid, k, sops = job
        sp, tp = os.path.join(swd, "solo_%d_%d.s" % (cid, k)), os.path.join(swd, "solo_%d_%d.t" % (cid, k))
        vlib.write_ndjson(sp, [{"op": "reset"}] + sops)
        vlib.drive(binp, sp, tp)
        evs = [e for e in vlib.read_ndjson(tp) if e.get("e") != "reset"]
        os.remove(sp)
        os.remove(tp)
        return cid, evs
    solo_events = {}
    with concurrent.futures.ThreadPoolExecutor(max_workers=12) as ex:
        for cid, evs in ex.map(solo_run, jobs):
            solo_events.setdefault(cid, []).extend(evs)
    sp, tp = os.path.join(swd, "main.s"), os.path.join(swd, "main.t")
    vlib.write_ndjson(sp, S.lines())
    vlib.drive(binp, sp, tp)
    ev = []
    for cid, evs in vlib.split_events(vlib.read_ndjson(tp)):
        ev.append(evs[0])
        ev.extend(solo_events.get(cid, []))
        ev.extend(evs[1:])
    cs = vlib.split_events(ev)
    res = vlib.validate_cases("C19", "Trace_Stream.tla", "Trace_Stream.cfg", cs, weight=default_weight)
    parts.append((ev, cs, res))
    for c in S.cases:      # a replay re-runs twins and interleaving in one schedule
        c["ops"] = [o for sops in c["solo"] for o in sops] + c["ops"]
    nviol += report_rejections("C19", res["rejected"], S)
    # the one real static: JitterRng::new() must not influence new_with_timer instances
    S2 = vlib.Sched()
    import random as _r
    rng = _r.Random(seed + 1919)
    ops = [{"op": "jit_std_new", "th": 1}]
    sc = corpora.jitter_script(rng, [("random", 400)])
    ops += [{"op": "timer", "t": 1, "readings": [vlib.u64(x) for x in sc], "cont": corpora.CONT},
            {"op": "jit_new", "g": 1, "t": 1, "th": 2}, {"op": "jit_std_new", "th": 2}, {"op": "next_u32", "g": 1, "th": 1},
            {"op": "jit_new", "g": 2, "t": 1}, {"op": "next_u64", "g": 2, "th": 2}, {"op": "next_u32", "g": 1, "th": 2}]
    S2.case("JitterRng::new() cache vs new_with_timer", ops)
    ev2, cs2, res2 = run_trace("C19b", S2, "Trace_Jitter.tla", "Trace_Jitter.cfg", weight=jit_weight)
    parts.append((ev2, cs2, res2))
    nviol += report_rejections("C19", res2["rejected"], S2)
    # the direct statement, for arbitrary operations: interleaved events of an instance == its events when run alone
    gcases = c19_general_cases(seed, tier)
    general_all = {}
    for with_bg in (True, False):       # with unscripted background load, and without (it can also MASK a one-entry cache)
        gsched = [{"op": "reset"}]
        for ci, c in enumerate(gcases):
            gsched += [{"op": "reset", "label": c["label"], "id": ci}, {"op": "bg_start", "threads": c.get("bg_threads", 3) if with_bg else 0, "kinds": c["bg"]}] + c["inter"] + [{"op": "bg_stop"}]
        sp, tp = os.path.join(swd, "gen.s"), os.path.join(swd, "gen.t")
        vlib.write_ndjson(sp, gsched)
        vlib.drive(binp, sp, tp)
        inter_by_case = {}
        cur = None
        for e in vlib.read_ndjson(tp):
            if e.get("e") == "reset":
                cur = e.get("id")
            elif cur is not None:
                inter_by_case.setdefault(cur, []).append(e)

        def solo2(job):
            ci, g, sops = job
            sp2, tp2 = os.path.join(swd, "gs_%d_%d.s" % (ci, g)), os.path.join(swd, "gs_%d_%d.t" % (ci, g))
            vlib.write_ndjson(sp2, [{"op": "reset"}] + sops)
            vlib.drive(binp, sp2, tp2)
            return ci, g, [e for e in vlib.read_ndjson(tp2) if e.get("e") != "reset"]
        gjobs = [(ci, g, sops) for ci, c in enumerate(gcases) for g, sops in c["solo"].items()]
        A, B, index = [], [], []
        solo_of = {}

        def own(evs, g):
            mine = [e for e in evs if (e.get("g") == g or (e.get("e") in ("src", "timer") and (e.get("s") == g or e.get("t") == g))) and e.get("e") not in ("bg_start", "bg_stop")]
            return [e for e in mine if not (e.get("e") in ("src",) and e.get("s") != g)]
        with concurrent.futures.ThreadPoolExecutor(max_workers=12) as ex:
            for ci, g, sev in ex.map(solo2, gjobs):
                solo_of[(ci, g)] = sev
                head = {"e": "reset", "op": "reset", "label": gcases[ci]["label"], "g": g}
                A += [head] + sev
                B += [head] + own(inter_by_case.get(ci, []), g)
                index.append((ci, g, len(A)))
        if not with_bg:
            # "fresh": the interleaved side again, as the first and only thing a process does, so many times
            def fresh(job):
                ci, k = job
                sp3, tp3 = os.path.join(swd, "gf_%d_%d.s" % (ci, k)), os.path.join(swd, "gf_%d_%d.t" % (ci, k))
                vlib.write_ndjson(sp3, [{"op": "reset"}] + gcases[ci]["inter"])
                vlib.drive(binp, sp3, tp3)
                evs = [e for e in vlib.read_ndjson(tp3) if e.get("e") != "reset"]
                os.remove(sp3)
                os.remove(tp3)
                return ci, k, evs
            fjobs = [(ci, k) for ci, c in enumerate(gcases) for k in range(c.get("fresh", 0))]
            with concurrent.futures.ThreadPoolExecutor(max_workers=3) as ex:      # few at a time: each one wants 16 cores for a moment
                for ci, k, evs in ex.map(fresh, fjobs):
                    for g in gcases[ci]["solo"]:
                        head = {"e": "reset", "op": "reset", "label": "%s (fresh process %d)" % (gcases[ci]["label"], k), "g": g}
                        A += [head] + solo_of[(ci, g)]
                        B += [head] + own(evs, g)
                        index.append((ci, g, len(A)))
        pa, pb = os.path.join(swd, "gA.t"), os.path.join(swd, "gB.t")
        vlib.write_ndjson(pa, A)
        vlib.write_ndjson(pb, B)
        rs = vlib.run_tlc(os.path.join(vlib.SPEC, "trace", "Trace_Same.tla"), os.path.join(vlib.SPEC, "trace", "Trace_Same.cfg"), os.path.join(swd, "meta-gen"),
                          env={"TRACE": pa, "TRACE2": pb}, timeout=1500, xmx="4g")
        prs = vlib.parse_trace_result(rs, 0)
        if prs["status"] == "error":
            raise ToolError("Trace_Same failed on the solo / interleaved comparison:\n" + rs["out"][-2000:])
        general = {"cases": len(gcases), "instances_compared": len(gjobs), "events_compared": rs["states"]}
        if prs["status"] != "accepted":
            at = prs["at"]
            ci, g = next(((c, gg) for c, gg, end in index if at <= end), (None, None))
            c = gcases[ci] if ci is not None else None
            path = vlib.write_replay("C19", {"property": "C19", "case": c["label"] if c else "?", "signature": "solo-vs-interleaved|%s|g%s" % (c["label"] if c else "?", g),
                                             "instance": g, "schedule_interleaved": [{"op": "reset"}, {"op": "bg_start", "threads": c.get("bg_threads", 3) if with_bg else 0, "kinds": c["bg"]}] + c["inter"] + [{"op": "bg_stop"}] if c else None,
                                             "schedule_alone": [{"op": "reset"}] + c["solo"][g] if c else None,
                                             "event_alone": A[at - 1] if 0 < at <= len(A) else None, "event_interleaved": B[at - 1] if 0 < at <= len(B) else None,
                                             "how": "drive schedule_alone in a process of its own and schedule_interleaved in another; compare the events of the instance"})
            print("VIOLATION property=C19 replay=%s" % path)
            print("  instance %s of case %r behaves differently alone and interleaved: %s" % (g, c["label"] if c else "?", "; ".join(m[:400] for m in prs["mismatch"][:1])))
            nviol += 1
        general_all["with background load" if with_bg else "without background load"] = general
    general = general_all
    cov = base_cov(parts, "for arbitrary operations (jumps on related states, constructors after a failed constructor elsewhere, test_timer after JitterRng::new() elsewhere) the events of an instance in an interleaved run with background load must equal its events when run alone in its own process (Trace_Same). TLC explores the instance machine (3 instances, 2 threads, every constructor / output interleaving, JitterRng::new()'s process-wide cache) and checks UsesOwnSeed, SoloResults, CacheOnlyAffectsNewStd and the frame property, with two negative controls (a process-wide and a thread-local seed cache); complete interleavings printed by TLC (2 instances x 3 outputs x thread assignments) are executed on persistent OS threads with instances moved between them, next to unscripted background threads hammering constructors of the same kinds (zero seeds, seed_from_u64(0)); every instance's outputs are validated by Trace_Stream against its own solo twin. distinct = distinct recorded events", ["Trace_Stream", "Trace_Jitter"])
    cov["solo_runs_in_own_process"] = len(jobs) + len(gjobs)
    cov["solo_vs_interleaved_general"] = general
    cov["mc_model"] = {"states_generated": mc["states"], "distinct": mc["distinct"], "interleavings_enumerated_by_TLC": len(scheds),
                       "interleavings_executed": len(S.cases), "negative_controls": ["LeakMode=global", "LeakMode=threadlocal"]}
    cov["send_sync_static_assertion_compiles"] = sendsync_ok
    vlib.write_evidence("C19", tier, seed, "model_checking", cov, COMMON_ASSUME[:2] + ["interleavings are enforced by a sequencer (one operation at a time, on the scripted thread); background threads run unscripted to disturb caches, never to produce verdicts"], time.time() - t0, nviol)
    return 1 if nviol else 0


# ---------------------------------------------------------------- C18
CONFIGS_ALL = [("dev", True), ("release", True), ("o0nochk", False), ("o3chk", True), ("dev", False), ("release", False), ("o0nochk", True), ("o3chk", False)]


def check_C18(tier, seed):
    import subprocess, concurrent.futures
    t0 = time.time()
    configs = CONFIGS_ALL[:3] if tier == "quick" else CONFIGS_ALL
    corp = corpora.c18_corpora(seed, tier)
    specs = {"alg": ("Trace_Alg", step_weight), "api": ("Trace_Stream", None), "jit": ("Trace_Jitter", jit_weight), "far": ("Trace_Pair", None)}
    # "jitlong" (66 000 consecutive stuck measurements) is compared across configurations only: C12 validates such a run
    # against the specification in the dev build
    wd = vlib.workdir("run-C18")
    bins, cfginfo = {}, {}
    for prof, serde in configs:
        b = vlib.build_harness(prof, serde)
        bins[(prof, serde)] = b
        cfginfo["%s%s" % (prof, "+serde" if serde else "")] = json.loads(subprocess.run([b, "config"], stdout=subprocess.PIPE, text=True).stdout or "{}")
    nviol, parts, compared = 0, [], 0
    ref = configs[0]
    traces = {}
    for name, S in corp.items():
        sp = os.path.join(wd, name + ".sched")
        vlib.write_ndjson(sp, S.lines())
        for cfg in configs:
            tp = os.path.join(wd, "%s-%s-%s.trace" % (name, cfg[0], "serde" if cfg[1] else "noserde"))
            vlib.drive(bins[cfg], sp, tp)
            traces[(name, cfg)] = tp
    # (1) the reference configuration is a behaviour of the specification
    for name, S in corp.items():
        if name not in specs:
            continue
        spec, w = specs[name]
        events = vlib.read_ndjson(traces[(name, ref)])
        cases = vlib.split_events(events)
        res = vlib.validate_cases("C18-" + name, spec + ".tla", spec + ".cfg", cases, weight=w or default_weight, timeout=3000)
        parts.append((events, cases, res))
        nviol += report_rejections("C18", res["rejected"], S)
    # (2) every other configuration records the same behaviour
    jobs = [(name, cfg) for name in corp for cfg in configs[1:]]

    def same(job):
        name, cfg = job
        r = vlib.run_tlc(os.path.join(vlib.SPEC, "trace", "Trace_Same.tla"), os.path.join(vlib.SPEC, "trace", "Trace_Same.cfg"),
                         os.path.join(wd, "meta-%s-%s-%s" % (name, cfg[0], cfg[1])),
                         env={"TRACE": traces[(name, ref)], "TRACE2": traces[(name, cfg)]}, timeout=1500, xmx="4g")
        return job, r
    with concurrent.futures.ThreadPoolExecutor(max_workers=7) as ex:
        for (name, cfg), r in ex.map(same, jobs):
            pr = vlib.parse_trace_result(r, 0)
            compared += r["states"]
            if pr["status"] == "accepted":
                continue
            if pr["status"] == "error":
                raise ToolError("Trace_Same failed on %s %s:\n%s" % (name, cfg, r["out"][-2000:]))
            events = vlib.read_ndjson(traces[(name, ref)])
            other = vlib.read_ndjson(traces[(name, cfg)])
            at = pr["at"]
            # the schedule of the case containing event `at`
            k = at - 1
            while k > 0 and events[k].get("e") != "reset":
                k -= 1
            label = events[k].get("label", "?") if k < len(events) else "?"
            case = next((c for c in corp[name].cases if c["label"] == label), None)
            cfgname = "%s%s" % (cfg[0], "+serde" if cfg[1] else "")
            path = vlib.write_replay("C18", {"property": "C18", "case": label, "signature": "config|%s|%s" % (cfgname, label),
                                             "configurations": ["dev+serde (reference)", cfgname],
                                             "schedule": ([{"op": "reset"}] + case["ops"]) if case else None,
                                             "event_index_in_trace": at,
                                             "reference_event": events[at - 1] if at <= len(events) else None,
                                             "other_event": other[at - 1] if at <= len(other) else None,
                                             "how": "build the harness with `cargo build --profile %s%s` and drive the schedule in both" % (cfg[0], "" if cfg[1] else " --no-default-features")})
            print("VIOLATION property=C18 replay=%s" % path)
            print("  configuration %s differs from the reference at event %d of corpus %s (case %r): %s" % (cfgname, at, name, label, "; ".join(m[:400] for m in pr["mismatch"][:1])))
            nviol += 1
    if tier != "quick":
        # Hc128Rng past word 2^32 (16 GiB): only in the two optimised configurations, with and without overflow checks
        Sv = corpora.very_far_corpus(seed, digest=True)
        sp = os.path.join(wd, "veryfar.sched")
        vlib.write_ndjson(sp, Sv.lines())
        tps = {}
        for cfg in (("o3chk", True), ("release", True)):
            tps[cfg] = os.path.join(wd, "veryfar-%s.trace" % cfg[0])
            vlib.drive(vlib.build_harness(*cfg), sp, tps[cfg], timeout=3000)
        evs = vlib.read_ndjson(tps[("o3chk", True)])
        res = vlib.validate_cases("C18-veryfar", "Trace_Pair.tla", "Trace_Pair.cfg", vlib.split_events(evs), timeout=3000)
        parts.append((evs, vlib.split_events(evs), res))
        nviol += report_rejections("C18", res["rejected"], Sv)
        r = vlib.run_tlc(os.path.join(vlib.SPEC, "trace", "Trace_Same.tla"), os.path.join(vlib.SPEC, "trace", "Trace_Same.cfg"), os.path.join(wd, "meta-veryfar"),
                         env={"TRACE": tps[("o3chk", True)], "TRACE2": tps[("release", True)]}, timeout=600)
        pr = vlib.parse_trace_result(r, 0)
        compared += r["states"]
        if pr["status"] == "error":
            raise ToolError("Trace_Same failed on the very-far corpus:\n" + r["out"][-2000:])
        if pr["status"] != "accepted":
            other = vlib.read_ndjson(tps[("release", True)])
            at = pr["at"]
            path = vlib.write_replay("C18", {"property": "C18", "case": "Hc128Rng past word 2^32", "signature": "config|release|veryfar",
                                             "configurations": ["o3chk+serde (opt-level 3, overflow checks, debug assertions)", "release+serde"],
                                             "schedule": [{"op": "reset"}] + Sv.cases[0]["ops"], "event_index_in_trace": at,
                                             "reference_event": evs[at - 1] if 0 < at <= len(evs) else None, "other_event": other[at - 1] if 0 < at <= len(other) else None})
            print("VIOLATION property=C18 replay=%s" % path)
            print("  the optimised build with overflow checks and the release build differ at event %d of the very-far corpus: %s" % (at, "; ".join(m[:400] for m in pr["mismatch"][:1])))
            nviol += 1
    cov = base_cov(parts, "a fixed corpus (algorithm traces of all generators incl. seeding, mixed next_u32/next_u64/fill_bytes histories of all 19 seedable types, positions past 2^8 and 2^16 blocks / words reached by native skipping (digest recorded), JitterRng over scripted timers incl. deltas around 2^31/2^32 and test_timer) is executed by the harness built in every configuration; the trace of the reference configuration (dev: opt 0, overflow checks, debug assertions, serde) is validated by the trace specifications, and Trace_Same requires every other configuration's trace to be the same behaviour event by event (values, Ok/Err, panics, readings consumed). distinct = distinct recorded events", ["Trace_Alg", "Trace_Stream", "Trace_Jitter", "Trace_Same"])
    cov["configurations"] = cfginfo
    cov["events_compared_across_configurations"] = compared
    cov["programs"] = len(configs)
    vlib.write_evidence("C18", tier, seed, "model_checking", cov, COMMON_ASSUME[:2] + ["configurations = cargo profiles of the harness (opt-level 0/3 x overflow-checks+debug-assertions on/off) x serde feature on/off; the crates under test are compiled with the same profile as path dependencies",
                                                                                       "quick runs 3 of the 8 configurations, thorough all 8"], time.time() - t0, nviol)
    import shutil
    shutil.rmtree(wd, ignore_errors=True)
    return 1 if nviol else 0


# ---------------------------------------------------------------- C06 / C07: algebraic certificates
ENGINES7 = ["xoroshiro64", "xoroshiro128", "xoroshiro128pp", "xoshiro128", "xoshiro256", "xoshiro512", "xorshift128"]
JUMP_ENGINES = ["xoroshiro128", "xoroshiro128pp", "xoshiro128", "xoshiro256", "xoshiro512"]
ENGINE_KINDS = {"xoroshiro64": ["Xoroshiro64Star", "Xoroshiro64StarStar"], "xoroshiro128": ["Xoroshiro128Plus", "Xoroshiro128StarStar"],
                "xoroshiro128pp": ["Xoroshiro128PlusPlus"], "xoshiro128": ["Xoshiro128Plus", "Xoshiro128PlusPlus", "Xoshiro128StarStar"],
                "xoshiro256": ["Xoshiro256Plus", "Xoshiro256PlusPlus", "Xoshiro256StarStar"],
                "xoshiro512": ["Xoshiro512Plus", "Xoshiro512PlusPlus", "Xoshiro512StarStar"], "xorshift128": ["XorShiftRng"]}


def run_certificates(wd, tasks, maxpar=14):
    """tasks: list of (engine, task). Runs ALG_Engine for each; returns {(engine, task): (ok, line, wall)}.
    A certificate that does not verify is a TOOL error (bad hint or bad transcription), never a verdict about the code."""
    import concurrent.futures, subprocess
    hints = os.path.join(wd, "hints.json")
    p = subprocess.run([sys.executable, os.path.join(vlib.ROOT, "tools", "gf2hints.py"), hints], stdout=subprocess.PIPE, stderr=subprocess.STDOUT, text=True)
    if p.returncode != 0:
        raise ToolError("hint generator failed: " + p.stdout[-1000:])
    hj = json.load(open(hints))

    def one(et):
        e, t = et
        r = vlib.run_tlc(os.path.join(vlib.SPEC, "alg", "ALG_Engine.tla"), os.path.join(vlib.SPEC, "alg", "ALG_Engine.cfg"),
                         os.path.join(wd, "meta_%s_%s" % (e, t)), env={"HINTS": hints, "ENGINE": e, "TASK": str(t)}, timeout=3000, xmx="3g")
        lines = [ln for ln in r["out"].splitlines() if ln.startswith("<<") and ('"KRYLOV"' in ln or '"XPOW"' in ln or '"ORDER"' in ln or '"JUMP"' in ln)]
        if not lines:
            lines = vlib.extract_tuples(r["out"], "KRYLOV") + vlib.extract_tuples(r["out"], "XPOW") + vlib.extract_tuples(r["out"], "ORDER") + vlib.extract_tuples(r["out"], "JUMP")
        return et, (r["completed"], lines[0] if lines else r["out"][-800:], r["wall"])
    # heavy tasks first
    tasks = sorted(tasks, key=lambda et: -hj[et[0]]["n"])
    out = {}
    with concurrent.futures.ThreadPoolExecutor(max_workers=maxpar) as ex:
        for et, res in ex.map(one, tasks):
            out[et] = res
    return out, hj


def preimage_seeds(kind, op, targets, tag="pre"):
    """Input construction: seeds whose image under `op` (a linear operation of the real type: one native step, jump,
    long_jump) is a prescribed structured state.  The operation's matrix is read off the real code on the unit seeds
    (harness run only), the system is solved here, and nothing is decided: the seeds are ordinary test inputs whose
    behaviour the trace specification judges.  Returns [(target_bytes, seed_bytes)] (possibly fewer than asked)."""
    binp = vlib.build_harness()
    wd = vlib.workdir("preimage-%s-%s" % (kind, op))
    n = 8 * corpora.SEEDLEN[kind]
    ops = [{"op": "reset"}]
    o = {"op": op, "g": 1}
    if op in ("next_u32", "next_u64"):
        o["n"] = 1
    for b in range(n):
        ops += [{"op": "from_seed", "g": 1, "kind": kind, "seed": corpora.unit_seed(kind, b), "tag": ["col", b]}, dict(o, tag=["colimg", b])]
    sp, tp = os.path.join(wd, "m.s"), os.path.join(wd, "m.t")
    vlib.write_ndjson(sp, ops)
    vlib.drive(binp, sp, tp)
    ext = extract_matrix(vlib.read_ndjson(tp), kind)
    import shutil
    shutil.rmtree(wd, ignore_errors=True)
    if ext is None:
        return []
    _, cols, _ = ext
    out = []
    for t in targets:
        x = gf2_solve(cols, int.from_bytes(bytes(t), "little"))
        if x:
            out.append((t, list(x.to_bytes(corpora.SEEDLEN[kind], "little"))))
    return out


def jump_conformance_corpus(seed, tier):
    import random
    rng = random.Random(seed * 1000003 + 6)
    S = vlib.Sched()
    full_basis_kinds = {"Xoroshiro128Plus", "Xoroshiro128PlusPlus", "Xoshiro128Plus", "Xoshiro256Plus", "Xoshiro512Plus"} if tier != "quick" else set()
    for kind in corpora.XO_JUMP:
        wb = corpora.WORDBYTES[kind]
        nb = 8 * corpora.SEEDLEN[kind]
        nat = corpora.native_op(kind)
        bits = list(range(nb)) if kind in full_basis_kinds else sorted(set(rng.sample(range(nb), 6) + [0, nb - 1]))
        chunk = 8
        for lo in range(0, len(bits), chunk):
            ops = []
            for b in bits[lo:lo + chunk]:
                for j in ("jump", "long_jump"):
                    ops += [{"op": "from_seed", "g": 1, "kind": kind, "seed": corpora.unit_seed(kind, b)}, {"op": j, "g": 1}, {"op": nat, "g": 1, "n": 2}]
            S.case("%s jump of unit states %d.." % (kind, bits[lo]), ops, weight=len(ops) * nb // 8)
        ops = []
        for r in range(8 if tier == "quick" else 48):
            sd = [rng.getrandbits(8) for _ in range(corpora.SEEDLEN[kind])]
            # jump, long_jump and stepping commute: record several orders from one seed
            order = rng.choice([["jump", "long_jump"], ["long_jump", "jump"], ["jump", "jump"], ["jump"], ["long_jump"]])
            ops.append({"op": "from_seed", "g": 1, "kind": kind, "seed": sd})
            ops.append({"op": nat, "g": 1, "n": rng.randrange(0, 4)})
            for j in order:
                ops.append({"op": j, "g": 1})
                ops.append({"op": nat, "g": 1, "n": 3})
        S.case("%s jump of random states" % kind, ops, weight=len(ops) * nb // 8)
        # structured START states (equal words, words cancelling under xor / addition, almost zero): special cases on the
        # states visited inside the jump loop
        ops = []
        for sd in corpora.structured_seeds(kind, rng)[:: (2 if tier == "quick" else 1)]:
            for j in ("jump", "long_jump"):
                ops += [{"op": "from_seed", "g": 1, "kind": kind, "seed": sd}, {"op": j, "g": 1}, {"op": nat, "g": 1, "n": 2}]
        S.case("%s jump from structured states" % kind, ops, weight=len(ops) * nb // 8)
        # states whose jump lands on a structured state (words cancelling under xor / addition, equal words, almost
        # zero): a special case on the RESULT of the jump is invisible from unit and random states
        ops = []
        for j in ("jump", "long_jump"):
            targets = corpora.structured_seeds(kind, rng)
            if tier == "quick":
                targets = rng.sample(targets, 5)
            for t, sd in preimage_seeds(kind, j, targets):
                ops += [{"op": "from_seed", "g": 1, "kind": kind, "seed": sd}, {"op": j, "g": 1}, {"op": nat, "g": 1, "n": 2}]
        if ops:
            S.case("%s jump onto structured states" % kind, ops, weight=len(ops) * nb // 8)
    return S


def check_C06(tier, seed):
    t0 = time.time()
    wd = vlib.workdir("alg-C06")
    tasks = [(e, "krylov") for e in JUMP_ENGINES] + [(e, "jump") for e in JUMP_ENGINES]
    res, hj = run_certificates(wd, tasks)
    bad = {k: v for k, v in res.items() if not v[0]}
    if bad:
        raise ToolError("certificate did not verify (hint or transcription problem, not a verdict about the code): %r" % {k: v[1][:300] for k, v in bad.items()})
    S = jump_conformance_corpus(seed, tier)
    rc = trace_check("C06", tier, seed, S, "Trace_Alg.tla", "Trace_Alg.cfg", release_every=4, weight=lambda evs: sum(40 if ev.get("e") in ("jump", "long_jump") else 1 for ev in evs),
                     rule="(1) for each of the 5 jump-capable engines TLC checks the certificate: the Krylov vectors T^i e0 have rank n and P(T)e0 = 0 for the hinted P, so P(T) = 0; x^(2^(n/2)) = JUMP(x) and x^(2^(3n/4)) = LONG_JUMP(x) in GF(2)[x]/P with the published constants read word 0 / bit 0 first - hence the reference jump loop equals 2^(n/2) resp. 2^(3n/4) steps from EVERY state and commutes with stepping; (2) the real jump()/long_jump() of all 12 types are applied to unit-bit states (full basis for one type per macro arm in thorough) and random states, in several orders, and Trace_Alg requires the resulting state image and following outputs to equal the reference jump loop. distinct = distinct recorded events",
                     assumptions=COMMON_ASSUME + ["the hinted polynomial is untrusted and fully re-checked inside TLC", "linearity of the implementation's jump is sampled (unit + random states); a wrong polynomial word or loop bound changes the image of every non-zero state"],
                     extra_cov={"certificates": {"%s:%s" % k: {"verified": v[0], "tlc_wall_s": round(v[2], 1), "result": v[1][:200]} for k, v in res.items()},
                                "obligations": len(tasks), "discharged": len(tasks), "exhaustive": True,
                                "exhaustive_scope": "the certificate decides jump = T^(2^(n/2)), long_jump = T^(2^(3n/4)) for all 2^n states of the TLA+ engines; the binding to the code is by conformance on a basis sample + random states"})
    return rc


C07_PATHS = ("native", "other", "fill8", "fill64", "fill200", "fill1028")


def c07_path_op(path, nat, other):
    return {"native": {"op": nat, "g": 1, "n": 1}, "other": {"op": other, "g": 1}, "fill8": {"op": "fill_bytes", "g": 1, "n": 8},
            "fill64": {"op": "fill_bytes", "g": 1, "n": 64}, "fill200": {"op": "fill_bytes", "g": 1, "n": 200},
            "fill1028": {"op": "fill_bytes", "g": 1, "n": 1028}}[path]


def c07_basis_corpus(seed, tier):
    """every unit-bit seed of all 15 linear types stepped ONCE (the columns of the transition matrix),
    plus random seeds stepped once (linearity samples)"""
    import random
    rng = random.Random(seed * 1000003 + 7)
    S = vlib.Sched()
    for kind in corpora.LINEAR:
        nb = 8 * corpora.SEEDLEN[kind]
        nat = corpora.native_op(kind)
        other = "next_u64" if nat == "next_u32" else "next_u32"
        # every path that advances the state: the native call, the other next_*, and fill_bytes of one word, of a
        # 64-byte block and of several blocks plus a word (where a bulk path of a hand-written fill_bytes would sit)
        for path in C07_PATHS:
            mk = (lambda path=path: c07_path_op(path, nat, other))
            for lo in range(0, nb, 64):
                ops = []
                for b in range(lo, min(nb, lo + 64)):
                    o = mk()
                    o["tag"] = ["colimg", b]
                    ops += [{"op": "from_seed", "g": 1, "kind": kind, "seed": corpora.unit_seed(kind, b), "tag": ["col", b]}, o]
                S.case("%s %s basis %d" % (kind, path, lo), ops)
            ops = []
            wb = corpora.WORDBYTES[kind]
            nw = corpora.SEEDLEN[kind] // wb
            Mw = (1 << (8 * wb)) - 1
            seeds = [[rng.getrandbits(8) for _ in range(corpora.SEEDLEN[kind])] for _ in range(24 if tier == "quick" else 200)]
            long_path = path in ("fill200", "fill1028")
            # states with related words (a, -a), (a, a), (a, ~a), zero and all-ones words in every pair of positions:
            # where a "guard against degenerate states" or any other state-dependent special case would sit
            for a in ([] if long_path else [1, 2, Mw, 1 << (8 * wb - 1), rng.getrandbits(8 * wb) | 1, rng.getrandbits(8 * wb) | 1]):
                for i in range(nw):
                    for j in range(nw):
                        if i == j:
                            continue
                        for b in ((-a) & Mw, a, a ^ Mw):
                            st = [0] * nw
                            st[i], st[j] = a, b
                            seeds.append(corpora.words_to_seed(st, wb))
                            st2 = [rng.getrandbits(8 * wb) for _ in range(nw)]
                            st2[i], st2[j] = a, b
                            seeds.append(corpora.words_to_seed(st2, wb))
            if tier == "quick" and len(seeds) > 400:
                seeds = seeds[:24] + rng.sample(seeds[24:], 376)
            if path == "native":
                # states whose successor is structured (a special case on the NEW state merges or diverts them)
                seeds += [sd for _, sd in preimage_seeds(kind, nat, corpora.structured_seeds(kind, rng))]
            for r, sd in enumerate(seeds):
                if not any(sd):
                    continue
                o = mk()
                o["tag"] = ["smpimg", r]
                ops += [{"op": "from_seed", "g": 1, "kind": kind, "seed": sd, "tag": ["smp", r]}, o]
            S.case("%s %s samples" % (kind, path), ops)
    return S


def words_to_int(ws):
    v, sh = 0, 0
    for w in ws:
        for l in w:
            v |= l << sh
            sh += 16
    return v


def extract_matrix(events, kind):
    """(n, cols, samples) of the code's step map from the recorded state images; None if unusable"""
    n = 8 * corpora.SEEDLEN[kind]
    cols, smp_in, samples = {}, {}, []
    cur_in = None
    for ev in events:
        tag = ev.get("tag")
        if not tag or ev.get("kind", kind) != kind and ev.get("e") == "from_seed":
            continue
        if "obs" not in ev or "s" not in ev["obs"]:
            continue
        v = words_to_int(ev["obs"]["s"])
        if tag[0] == "col":
            cur_in = ("col", tag[1], v)
        elif tag[0] == "colimg" and cur_in and cur_in[0] == "col" and cur_in[1] == tag[1]:
            if cur_in[2] != (1 << tag[1]):
                return None            # from_seed did not produce the unit state: the step map cannot be isolated
            cols[tag[1]] = v
        elif tag[0] == "smp":
            cur_in = ("smp", tag[1], v)
        elif tag[0] == "smpimg" and cur_in and cur_in[0] == "smp" and cur_in[1] == tag[1]:
            samples.append([cur_in[2], v])
    if len(cols) != n:
        return None
    return n, [cols[i] for i in range(n)], samples


def gf2_solve(cols, target):
    """UNTRUSTED hint: x (as an int, bit i = coefficient of column i) with xor of the selected columns == target, or None"""
    basis = {}
    for i, c in enumerate(cols):
        v, comb = c, 1 << i
        while v:
            t = v.bit_length() - 1
            if t in basis:
                v ^= basis[t][0]; comb ^= basis[t][1]
            else:
                basis[t] = (v, comb)
                break
    v, comb = target, 0
    while v:
        t = v.bit_length() - 1
        if t not in basis:
            return None
        v ^= basis[t][0]; comb ^= basis[t][1]
    return comb


def kernel_vector(n, cols):
    """UNTRUSTED hint: a non-zero v with M v = 0, or None"""
    basis = {}
    for i, c in enumerate(cols):
        v, comb = c, 1 << i
        while v:
            t = v.bit_length() - 1
            if t in basis:
                v ^= basis[t][0]; comb ^= basis[t][1]
            else:
                basis[t] = (v, comb)
                break
        if not v:
            return comb
    return None


def decide_extracted(wd, kind, n, cols, samples, binp):
    """Run the certificate on a transition matrix extracted from the code.
    Returns ("holds"|"undecided"|"violated", detail dict)."""
    import subprocess, re
    mpath, hpath = os.path.join(wd, "matrix_%s.json" % kind), os.path.join(wd, "hints_%s.json" % kind)
    name = "code:" + kind
    json.dump({name: {"kind": kind, "n": n, "cols": [str(c) for c in cols], "samples": [[str(a), str(b)] for a, b in samples[:64]]}}, open(mpath, "w"))
    p = subprocess.run([sys.executable, os.path.join(vlib.ROOT, "tools", "gf2hints.py"), hpath, mpath], stdout=subprocess.PIPE, stderr=subprocess.STDOUT, text=True)
    if p.returncode != 0:
        raise ToolError("hint generator failed on the extracted matrix: " + p.stdout[-1000:])
    hj = json.load(open(hpath))[name]

    def task(t):
        r = vlib.run_tlc(os.path.join(vlib.SPEC, "alg", "ALG_Engine.tla"), os.path.join(vlib.SPEC, "alg", "ALG_Engine.cfg"),
                         os.path.join(wd, "metax_%s_%s" % (kind, t)), env={"HINTS": hpath, "ENGINE": name, "TASK": str(t)}, timeout=3000, xmx="3g")
        tup = " ".join(sum((vlib.extract_tuples(r["out"], tg) for tg in ("LINEAR", "KRYLOV", "XPOW", "ORDER")), []))
        return r, tup
    r, tup = task("linear")
    m = re.search(r'"disagree", (\d+), "matrix rank", (\d+)', tup)
    if not m:
        raise ToolError("ALG_Engine linear task gave no result:\n" + r["out"][-1500:])
    if int(m.group(1)) > 0:
        return "undecided", {"why": "the code's step is not GF(2)-linear on the sampled states (see C01/C04)", "tlc": tup}
    if int(m.group(2)) < n:
        k = kernel_vector(n, cols)
        sd = list(k.to_bytes(n // 8, "little"))
        nat = corpora.native_op(kind)
        ops = [{"op": "reset"}, {"op": "from_seed", "g": 1, "kind": kind, "seed": sd}, {"op": nat, "g": 1, "n": 1, "tag": ["confirm", "zero", 1]}]
        cs, ct = os.path.join(wd, "k.ndjson"), os.path.join(wd, "kt.ndjson")
        vlib.write_ndjson(cs, ops)
        vlib.drive(binp, cs, ct)
        evs = vlib.read_ndjson(ct)
        zero = any(ev.get("tag") == ["confirm", "zero", 1] and all(l == 0 for w in ev.get("obs", {}).get("s", [[1]]) for l in w) for ev in evs)
        if zero and any(sd):
            return "violated", {"why": "the step map is singular: a non-zero state steps to the all-zero state", "schedule": ops, "seed": sd, "tlc": tup}
        return "undecided", {"why": "rank-deficient matrix but the kernel vector did not reproduce on the code", "tlc": tup}
    r, tup = task("krylov")
    mk = re.search(r'"rank", (\d+), "P\(T\)e0 = 0", (TRUE|FALSE)', tup)
    if not mk:
        raise ToolError("ALG_Engine krylov task gave no result:\n" + r["out"][-1500:])
    if int(mk.group(1)) < n:
        # TLC computed the Krylov space of a NON-ZERO state itself (no hint involved): it is a proper
        # T-invariant subspace, so the cycle through that state cannot visit all 2^n - 1 non-zero states
        e0 = vlib.from_limbs(hj["e0"])
        return "violated", {"why": "the states T^i e0 (e0 = 0x%x) span only a %s-dimensional T-invariant subspace of the %d-bit state space: the cycle through e0 has at most 2^%s - 1 states, not 2^%d - 1" % (e0, mk.group(1), n, mk.group(1), n),
                            "tlc": tup}
    if mk.group(2) != "TRUE":
        raise ToolError("hint for the extracted matrix did not verify: " + tup[:300])
    failed = []
    r, tup = task("xpow")
    if '"x^(2^n) = x", TRUE' not in tup:
        failed.append("x^(2^n) # x in GF(2)[x]/P: T^(2^n - 1) # I, so not every non-zero state lies on a cycle of length 2^n - 1")
    for j in range(1, len(hj["primes"]) + 1):
        r, tup = task(j)
        if '"x^cofactor # 1", TRUE' not in tup:
            q = vlib.from_limbs(hj["primes"][j - 1])
            failed.append("x^((2^n-1)/%d) = 1: T^((2^n-1)/%d) = I, every cycle length divides (2^n-1)/%d" % (q, q, q))
    if failed:
        return "violated", {"why": "; ".join(failed), "matrix_columns_hex": ["%x" % c for c in cols[:4]] + ["..."]}
    return "holds", {"why": "the code's engine differs from the reference but the certificate verifies on its own transition matrix (full period); the difference is C01's business"}


def check_C07(tier, seed):
    t0 = time.time()
    wd = vlib.workdir("alg-C07")
    nprimes = {"xoroshiro64": 7, "xoroshiro128": 9, "xoroshiro128pp": 9, "xoshiro128": 9, "xorshift128": 9, "xoshiro256": 11, "xoshiro512": 13}
    tasks = []
    for e in ENGINES7:
        tasks += [(e, "krylov"), (e, "xpow")] + [(e, j) for j in range(1, nprimes[e] + 1)]
    res, hj = run_certificates(wd, tasks)
    bad = {k: v for k, v in res.items() if not v[0]}
    if bad:
        raise ToolError("certificate did not verify (hint or transcription problem, not a verdict about the code): %r" % {"%s:%s" % k: v[1][:300] for k, v in bad.items()})
    # binding: the code's transition matrix is the specification's T on the complete basis (+ random states)
    S = c07_basis_corpus(seed, tier)
    events, cases, tres = run_trace("C07", S, "Trace_Alg.tla", "Trace_Alg.cfg")
    nviol, notes, decided = 0, [], {}
    by_id = {c["id"]: c for c in S.cases}
    binp = vlib.build_harness()

    def decide_paths(cases_, tres_, by_id_, binp_, build):
        """every (type, path) with a rejected case: the map this path applies to the state is not the reference engine
        (power) in this build; decide C07 on the code's own matrix"""
        nv = 0
        off = sorted({tuple(by_id_[r["case"]]["label"].split(" ")[:2]) for r in tres_["rejected"] if r["case"] in by_id_})
        for kp in off:
            kind0, path = kp
            kind = "%s/%s%s" % (kp[0], kp[1], build)
            kevents = [ev for cid, evs in cases_ if cid in by_id_ and tuple(by_id_[cid]["label"].split(" ")[:2]) == kp for ev in evs]
            ex = extract_matrix(kevents, kind0)
            if ex is None:
                decided[kind] = ("undecided", {"why": "the transition matrix could not be extracted (from_seed does not yield the unit states, or no state image)"})
            else:
                decided[kind] = decide_extracted(wd, kind0, ex[0], ex[1], ex[2], binp_)
            verdict, detail = decided[kind]
            if verdict == "violated":
                nv += 1
                path = vlib.write_replay("C07", {"property": "C07", "case": "engine of " + kind, "signature": "period|" + kind,
                                                 "schedule": detail.get("schedule"), "detail": detail, "build": build or "dev",
                                                 "how": "tools/vcheck C07 re-extracts the transition matrix of the code and re-checks the certificate"})
                print("VIOLATION property=C07 replay=%s" % path)
                print("  %s: %s" % (kind, detail["why"][:400]))
            else:
                print("NOTE property=C07 %s: state map differs from the reference; C07 %s: %s" % (kind, verdict, detail["why"][:300]))
        return nv, off
    nv, kinds_off = decide_paths(cases, tres, by_id, binp, "")
    nviol += nv
    # the same binding in the optimised build (no overflow checks, no debug assertions) for the short paths: the
    # property is about the generator, not about one build profile
    Srel = vlib.Sched()
    Srel.cases = [c for c in S.cases if c["label"].split(" ")[1] in ("native", "other", "fill8")]
    ev_r, cases_r, tres_r = run_trace("C07-release", Srel, "Trace_Alg.tla", "Trace_Alg.cfg", profile="release")
    nv, kinds_off_rel = decide_paths(cases_r, tres_r, {c["id"]: c for c in Srel.cases}, vlib.build_harness("release", True), " (release build)")
    nviol += nv
    # "a generator seeded through the API never reaches the all-zero state": the seeding inputs that come closest to it
    # (the u64 arguments whose k-th SplitMix64 output is zero, zero and almost-zero seeds, sources with leading zero
    # blocks); counted here only when the recorded state image IS the all-zero state (everything else is C08 / C09's)
    adv = [(-kk * 0x9E3779B97F4A7C15) & ((1 << 64) - 1) for kk in range(1, 9)]
    Sz = vlib.Sched()
    Sz.cases = [c for c in corpora.c08_corpus(seed, "quick", adv).cases if any(t in c["label"] for t in ("seed_from_u64 adversarial", "zero and almost-zero seeds"))]
    # every constructor call is judged on its own: a case is cut in front of each constructor (pieces that refer to a
    # generator made in an earlier piece stay with it), because only the FIRST rejected event of a case is reported
    cut = []
    for c in Sz.cases:
        segs = []
        for o in c["ops"]:
            if o["op"] in ("from_seed", "seed_from_u64") or not segs:
                segs.append([])
            segs[-1].append(o)
        merged = []
        for sg in segs:
            made = {o["g"] for o in sg if o["op"] in ("from_seed", "seed_from_u64")}
            used = {o[k] for o in sg for k in ("g", "a", "b") if k in o}
            if merged and not used <= made:
                merged[-1] += sg
            else:
                merged.append(list(sg))
        for i, sg in enumerate(merged):
            cut.append({"label": "%s #%d" % (c["label"], i), "ops": sg})
    Sz = vlib.Sched()
    for c in cut:
        Sz.case(c["label"], c["ops"])
    import random as _rnd
    rz = _rnd.Random(seed + 707)
    for kind in corpora.LINEAR:       # one source per case, so that every constructor call is judged on its own
        L = corpora.SEEDLEN[kind]
        for z in (1, 2):
            for ctor, fallible in (("from_rng", False), ("try_from_rng", True)):
                Sz.case("%s %s from a source with %d leading zero block(s)" % (kind, ctor, z),
                        [{"op": "src", "s": 1, "bytes": [0] * (z * L) + [rz.getrandbits(8) | 1 for _ in range(2 * L)], "fallible": fallible},
                         {"op": ctor, "g": 1, "kind": kind, "s": 1}, {"op": corpora.native_op(kind), "g": 1, "n": 2}])
        Sz.case("%s try_from_rng: a zero block, then the source fails" % kind,
                [{"op": "src", "s": 1, "bytes": [0] * L + [rz.getrandbits(8) | 1 for _ in range(2 * L)], "fallible": True, "fail_at": 2},
                 {"op": "try_from_rng", "g": 1, "kind": kind, "s": 1}])
    for kind in corpora.LINEAR:       # Default::default(), where a type has (or gains) it, is one more constructor
        Sz.case("%s Default::default(), if there is one" % kind, [{"op": "default_ctor", "g": 1, "kind": kind}])
    for kind in corpora.XO_JUMP:      # a jump is 2^(n/2) steps: it cannot end in the all-zero state either
        for r in range(2):
            sd = [rz.getrandbits(8) | 1 for _ in range(corpora.SEEDLEN[kind])]
            for j in ("jump", "long_jump"):
                Sz.case("%s %s from a random state" % (kind, j), [{"op": "from_seed", "g": 1, "kind": kind, "seed": sd}, {"op": j, "g": 1}, {"op": corpora.native_op(kind), "g": 1, "n": 2}])
    ev_z, cases_z, tres_z = run_trace("C07-seeding", Sz, "Trace_Alg.tla", "Trace_Alg.cfg", weight=step_weight)
    zero_rej = []
    for r in tres_z["rejected"]:
        evs = r["events"]
        bad = evs[r["at_event"] - 1] if 0 < r["at_event"] <= len(evs) else None
        img = ((bad or {}).get("obs") or {}).get("s")
        if img and all(l == 0 for w in img for l in w):
            zero_rej.append(r)
        elif (bad or {}).get("e") == "default_ctor" and bad.get("image") and not any(bad["image"]):
            zero_rej.append(r)
    nviol += report_rejections("C07", zero_rej, Sz)
    # a step that is not injective: two different recorded states with the same recorded successor.  The pair is
    # replayed on the code and the equality of the two successors is confirmed by TLC (ALG_Confirm on the images)
    collisions = 0
    seen = {}
    for cid, evs in cases:
        if cid not in by_id:
            continue
        kp = tuple(by_id[cid]["label"].split(" ")[:2])
        cur = None
        for ev in evs:
            if ev.get("e") == "from_seed" and "obs" in ev and "s" in ev["obs"]:
                cur = (json.dumps(ev["obs"]["s"]), ev["seed"])
            elif cur and ev.get("tag") and ev["tag"][0] in ("colimg", "smpimg") and "obs" in ev and "s" in ev["obs"]:
                key = (kp, json.dumps(ev["obs"]["s"]))
                if key in seen and seen[key][0] != cur[0] and collisions < 3:
                    kind0, path = kp
                    nat = corpora.native_op(kind0)
                    other = "next_u64" if nat == "next_u32" else "next_u32"
                    mkop = c07_path_op(path, nat, other)
                    ops = []
                    for w, sd in ((0, seen[key][1]), (1, cur[1])):
                        o = dict(mkop)
                        o["tag"] = ["confirm", kind0, w]
                        ops += [{"op": "from_seed", "g": 1, "kind": kind0, "seed": sd}, o]
                    cs2, ct2 = os.path.join(wd, "col.s"), os.path.join(wd, "col.t")
                    vlib.write_ndjson(cs2, [{"op": "reset"}] + ops)
                    vlib.drive(binp, cs2, ct2)
                    rc2 = vlib.run_tlc(os.path.join(vlib.SPEC, "alg", "ALG_Confirm.tla"), os.path.join(vlib.SPEC, "alg", "ALG_Confirm.cfg"),
                                       os.path.join(wd, "metacol"), env={"TRACE": ct2}, timeout=300)
                    if '<<"COLLISION", TRUE>>' in rc2["out"] and seen[key][1] != cur[1]:
                        collisions += 1
                        nviol += 1
                        path2 = vlib.write_replay("C07", {"property": "C07", "case": "%s/%s is not injective" % kp, "signature": "collision|%s/%s" % kp,
                                                          "schedule": [{"op": "reset"}] + ops, "seeds": [seen[key][1], cur[1]],
                                                          "note": "two different non-zero states have the same successor: the transition is not a bijection"})
                        print("VIOLATION property=C07 replay=%s" % path2)
                        print("  %s/%s: the states with seeds %s and %s have the same successor" % (kp[0], kp[1], bytes(seen[key][1]).hex(), bytes(cur[1]).hex()))
                seen.setdefault(key, cur)
    cov = base_cov([(events, cases, tres), (ev_r, cases_r, tres_r), (ev_z, cases_z, tres_z)], "(0) seeding inputs closest to the all-zero state (C08's corpus) must not produce it; (1) for each of the 7 distinct linear engines TLC checks the certificate: Krylov rank n and P(T)e0 = 0 (so GF(2)[x]/P -> V, f |-> f(T)e0 is an isomorphism carrying x to T), x^(2^n) = x, the listed primes multiply to 2^n - 1, and for every prime q: cofactor*q = 2^n - 1 and x^cofactor # 1 - so x has order exactly 2^n - 1, GF(2)[x]/P is a field and T is a bijection permuting the 2^n - 1 non-zero states in a single cycle; (2) for every one of the 15 linear generator types and every path that advances the state (the native call, the other next_*, fill_bytes(8), fill_bytes(64), fill_bytes(200), fill_bytes(1028)) the transition matrix is extracted from the real code on the complete basis of unit-bit seeds (plus random seeds for linearity) and validated by TLC against the specification's T^k (k = words consumed); (3) if a type's matrix differs from the reference, the same certificate is run on the extracted matrix and a violation is reported only with a certificate (a non-zero state stepping to zero, replayed on the code; or T^((2^n-1)/q) = I; or T^(2^n-1) # I). distinct = distinct recorded events", ["Trace_Alg", "ALG_Engine"])
    cov["certificates"] = {"%s:%s" % k: {"verified": v[0], "tlc_wall_s": round(v[2], 1), "result": v[1][:160]} for k, v in sorted(res.items(), key=lambda kv: str(kv[0]))}
    cov["obligations"] = len(tasks)
    cov["discharged"] = len(tasks)
    cov["type_paths_whose_matrix_equals_the_reference"] = len(C07_PATHS) * len(corpora.LINEAR) - len(kinds_off)
    cov["type_paths_off_in_the_release_build"] = len(kinds_off_rel)
    cov["types_decided_on_their_own_matrix"] = {k: v[0] for k, v in decided.items()}
    cov["non_injective_steps_confirmed"] = collisions
    cov["exhaustive"] = True
    cov["exhaustive_scope"] = "the certificate decides the single-cycle property for all 2^n - 1 non-zero states of each engine (n = 64, 128, 256, 512); the binding to the code is the complete transition matrix on the basis"
    vlib.write_evidence("C07", tier, seed, "model_checking", cov,
                        COMMON_ASSUME + ["the prime factorisation of 2^n - 1 (Fermat numbers F0..F8) is the published one; TLC re-multiplies the primes and cofactors but does not re-prove primality of the factors",
                                         "hinted polynomials, cofactors and kernel vectors are untrusted and fully re-checked (inside TLC, or by replay on the code)", "linearity of the implementation is sampled by random seeds"],
                        time.time() - t0, nviol)
    return 1 if nviol else 0


def special_value_cases(S, seed, debug=False):
    """cases in which the first collected value of a JitterRng has a special shape (zero, all ones, a zero or all-ones
    half): the hand-out discipline, the read position and the Debug text must not depend on the value"""
    import random
    rng = random.Random(seed * 31 + 5)
    for rounds in (1, 2):
        for name, (rd, val) in sorted(jitter_special_scripts(rounds).items()):
            tail = corpora.jitter_script(rng, [("random", 400)])
            walks = [[("next_u32", 0), ("next_u32", 0), ("next_u32", 0), ("next_u64", 0), ("next_u32", 0)],
                     [("next_u64", 0), ("next_u32", 0), ("next_u32", 0), ("fill_bytes", 3), ("next_u32", 0)],
                     [("next_u32", 0), ("fill_bytes", 0), ("next_u32", 0), ("fill_bytes", 12), ("next_u32", 0), ("next_u32", 0)]]
            for wi, w in enumerate(walks):
                ops = [{"op": "timer", "t": 1, "readings": [vlib.u64(x) for x in rd + tail], "cont": corpora.CONT},
                       {"op": "jit_new", "g": 1, "t": 1}, {"op": "set_rounds", "g": 1, "r": rounds}]
                if debug:
                    # the same history over an ordinary timer, for comparison of the texts
                    ops += [{"op": "timer", "t": 2, "readings": [vlib.u64(x) for x in corpora.jitter_script(rng, [("random", 500)])], "cont": corpora.CONT},
                            {"op": "jit_new", "g": 2, "t": 2}, {"op": "set_rounds", "g": 2, "r": rounds}]
                for gi in ((1, 2) if debug else (1,)):
                    if debug:
                        ops.append({"op": "debug", "g": gi})
                    for e in w:
                        ops.append(corpora.opj(e, gi))
                        if debug:
                            ops.append({"op": "debug", "g": gi})
                    if wi == 0 and not debug:
                        ops += [{"op": "clone", "g": 1, "to": 3}, {"op": "next_u32", "g": 3}, {"op": "next_u32", "g": 1}]
                S.case("first collected value %s (rounds %d) walk %d" % (name, rounds, wi), ops, weight=80)
    return S


# ---------------------------------------------------------------- special collected values (input construction)
_SPECIAL_CACHE = {}


def jitter_special_scripts(rounds=1, seed=1):
    """Timer scripts whose FIRST collected 64-bit value has a prescribed shape (upper half zero, lower half zero,
    zero, all ones, upper half all ones).  Pure input construction: the value is affine over GF(2) in the bits of
    the measured deltas as long as no measurement becomes stuck, so the real code is run on 1 + 32*(rounds+1)
    scripts that differ in one delta bit, and the system is solved here.  Nothing is decided: a script is used only
    if a final run of the real code shows the prescribed shape, and what the generator then does with such a value
    is judged by the trace specifications like any other case.
    Returns {name: (readings, value)}."""
    import random
    key = (rounds, seed, os.environ.get("VERIF_REPO", ""))
    if key in _SPECIAL_CACHE:
        return _SPECIAL_CACHE[key]
    rng = random.Random(seed * 7919 + rounds)
    binp = vlib.build_harness()
    wd = vlib.workdir("special-%d" % rounds)
    m = rounds + 1
    M64 = (1 << 64) - 1
    t0 = rng.getrandbits(44) + (1 << 40)
    base = [rng.getrandbits(30) + (1 << 20) + 977 * k for k in range(m)]

    def script(ds):
        rd, t = [t0], t0
        for d in ds:
            sd = d - (1 << 32) if d >= (1 << 31) else d
            nt = (t + sd) & M64
            rd += [(t + 3) & M64, nt, (nt + 5) & M64]
            t = nt
        return rd

    def run(variants):
        ops = []
        for i, ds in enumerate(variants):
            ops += [{"op": "reset"}, {"op": "timer", "t": 1, "readings": [vlib.u64(x) for x in script(ds)], "cont": corpora.CONT},
                    {"op": "jit_new", "g": 1, "t": 1}, {"op": "set_rounds", "g": 1, "r": rounds}, {"op": "next_u64", "g": 1, "tag": i}]
        sp, tp = os.path.join(wd, "x.s"), os.path.join(wd, "x.t")
        vlib.write_ndjson(sp, ops)
        vlib.drive(binp, sp, tp)
        out = {}
        for e in vlib.read_ndjson(tp):
            if e.get("e") == "next_u64" and "tag" in e and "ret" in e and len(e.get("reads", [])) == 1 + 3 * m:
                out[e["tag"]] = vlib.from_limbs(e["ret"])
        return out
    variants = [list(base)]
    unknowns = []
    for k in range(m):
        for b in range(32):
            v = list(base)
            v[k] ^= 1 << b
            variants.append(v)
            unknowns.append((k, b))
    vals = run(variants)
    res = {}
    if 0 in vals:
        v0 = vals[0]
        cols = [(i, vals[i + 1] ^ v0) for i in range(len(unknowns)) if (i + 1) in vals]
        targets = {"upper half zero": (0xFFFFFFFF00000000, 0), "lower half zero": (0xFFFFFFFF, 0), "zero": (M64, 0),
                   "all ones": (M64, M64), "upper half all ones": (0xFFFFFFFF00000000, 0xFFFFFFFF00000000)}
        for name, (mask, want) in targets.items():
            # Gaussian elimination over GF(2): find a subset of columns whose xor equals (v0 ^ want) on the masked bits
            rows = []          # (masked vector, combination bitset)
            for j, (i, c) in enumerate(cols):
                vec, comb = c & mask, 1 << j
                for pv, pc in rows:
                    if vec & (pv & -pv):
                        vec, comb = vec ^ pv, comb ^ pc
                if vec:
                    rows.append((vec, comb))
            need, comb = (v0 ^ want) & mask, 0
            for pv, pc in rows:
                if need & (pv & -pv):
                    need, comb = need ^ pv, comb ^ pc
            if need:
                continue
            ds = list(base)
            for j, (i, c) in enumerate(cols):
                if comb >> j & 1:
                    k, b = unknowns[i]
                    ds[k] ^= 1 << b
            # the solution is NOT verified on the code under test (a code that treats such a value specially would fail the
            # verification and thereby hide the very case): it is a script like any other, the specification judges it
            res[name] = (script(ds), want)
    import shutil
    shutil.rmtree(wd, ignore_errors=True)
    _SPECIAL_CACHE[key] = res
    return res

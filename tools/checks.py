"""Per-property checks.  Each check_<ID>(tier, seed) returns 0 (held) or 1
(VIOLATION printed); ToolError -> exit 2 in vcheck."""
import json, os, time, subprocess, sys
import vlib, corpora
from vlib import ToolError


def _signature(label, ev, mism):
    what = "unexplained"
    if ev is not None and "panic" in ev:
        what = "panic:" + str(ev["panic"])[:120]
    elif mism:
        # <<"MISMATCH", l, "what", ...>>
        parts = mism[0].split(",")
        if len(parts) > 2:
            what = parts[2].strip().strip('"')
    return "%s|%s|%s" % (label, ev.get("e") if ev else "?", what)


def report_rejections(prop, rejected, sched, extra=None):
    """Print VIOLATION / KNOWN-FINDING lines for rejected cases. Returns #violations (unlisted)."""
    known = vlib.load_known_findings()
    nviol = 0
    by_id = {c["id"]: c for c in sched.cases} if sched else {}
    for r in rejected:
        case = by_id.get(r["case"])
        label = case["label"] if case else str(r["case"])
        evs = r["events"]
        bad = evs[r["at_event"] - 1] if 0 < r["at_event"] <= len(evs) else None
        sig = _signature(label, bad or {}, r["mismatch"])
        payload = {"property": prop, "case": label, "signature": sig,
                   "schedule": ([{"op": "reset"}] + case["ops"]) if case else None,
                   "rejected_event_index": r["at_event"], "rejected_event": bad,
                   "spec_diagnostics": r["mismatch"][:5]}
        if extra:
            payload.update(extra)
        listed = [k for k in known if k.startswith("finding:") and ("property=%s " % prop) in k and sig_key(k) and sig_key(k) in sig]
        if listed:
            print("KNOWN-FINDING: property=%s %s" % (prop, listed[0].split(" ", 2)[2] if listed[0].count(" ") >= 2 else sig))
            continue
        nviol += 1
        if nviol > 5:
            continue
        path = vlib.write_replay(prop, payload)
        print("VIOLATION property=%s replay=%s" % (prop, path))
        print("  case=%r event#%d %s" % (label, r["at_event"], json.dumps(bad)[:300] if bad else ""))
        for m in r["mismatch"][:2]:
            print("  " + m[:700])
    if nviol > 5:
        print("  ... and %d more rejected cases (not listed)" % (nviol - 5))
    return nviol


def sig_key(line):
    # finding: property=Cxx key=<text up to ' :: '> :: description
    if "key=" not in line:
        return None
    k = line.split("key=", 1)[1]
    return k.split(" :: ", 1)[0].strip()


def sample_events(cases, k=3):
    out = []
    for cid, evs in cases[:: max(1, len(cases) // k)][:k]:
        for ev in evs[1:3]:
            s = json.dumps(ev)
            out.append(json.loads(s) if len(s) < 1500 else {"e": ev.get("e"), "truncated": s[:600]})
    return out


def trace_check(prop, tier, seed, sched, spec, cfg, *, level="model_checking", rule, assumptions,
                serde=True, profile="dev", nshards=14, timeout=3000, deque=False, weight=None, extra_cov=None,
                distinct_fn=None):
    t0 = time.time()
    binp = vlib.build_harness(profile, serde)
    wd = vlib.workdir("run-" + prop)
    sp, tp = os.path.join(wd, "sched.ndjson"), os.path.join(wd, "trace.ndjson")
    vlib.write_ndjson(sp, sched.lines())
    vlib.drive(binp, sp, tp)
    events = vlib.read_ndjson(tp)
    cases = vlib.split_events(events)
    wfn = weight or (lambda evs: sum(max(1, ev.get("n", 1) if isinstance(ev.get("n", 1), int) else 1) for ev in evs))
    res = vlib.validate_cases(prop, spec, cfg, cases, nshards=nshards, timeout=timeout, deque=deque, weight=wfn)
    nviol = report_rejections(prop, res["rejected"], sched)
    nsteps = sum(wfn(evs) for _, evs in cases)
    cov = {"states": max(1, res["states"]), "transitions": max(1, res["states"] - res["tlc_runs"]),
           "traces_validated_against_impl": res["accepted_cases"],
           "samples": sample_events(cases),
           "events_validated": res["events"], "events_recorded": len(events), "generator_steps": nsteps,
           "cases": len(cases), "rejected_cases": len(res["rejected"]), "tlc_runs": res["tlc_runs"],
           "rule": rule, "exhaustive": False,
           "checker_cmd": "tlc -config spec/trace/%s spec/trace/%s (TRACE=<shard>)" % (cfg, spec)}
    if extra_cov:
        cov.update(extra_cov)
    vlib.write_evidence(prop, tier, seed, level, cov, assumptions, time.time() - t0, nviol)
    import shutil
    shutil.rmtree(wd, ignore_errors=True)
    return 1 if nviol else 0


COMMON_ASSUME = ["TLC's evaluator and the CommunityModules Java overrides (Bitwise, SequencesExt, Json, IOUtils)",
                 "rustc/cargo; the harness only calls the public API (plus the cfg(rngs_verif) JitterRng accessors)",
                 "my transcription of the published algorithms into TLA+ (self-checked against known-answer vectors in spec/mc/MC_Vectors)"]


def check_C01(tier, seed):
    S = corpora.c01_corpus(seed, tier)
    return trace_check("C01", tier, seed, S, "Trace_Alg.tla", "Trace_Alg.cfg",
                       rule="for each of the 14 linear generators: every unit-bit seed (complete GF(2) basis of the state space and of the seed decoding) stepped twice; structured scrambler classes (carry chains of every length, multiplier wrap, all-ones, high bits); random seeds x K consecutive native outputs with the full state image compared after every call; SplitMix64 counters around the 2^64 wrap with both finalizers. One TLC state per recorded event; distinct = distinct events",
                       assumptions=COMMON_ASSUME + ["agreement on a basis extends to all states for the GF(2)-linear engine only; the non-linear output scramblers are covered by structured classes and random states, a bound not a proof"])


def check_C04(tier, seed):
    S = corpora.c04_corpus(seed, tier)
    return trace_check("C04", tier, seed, S, "Trace_Alg.tla", "Trace_Alg.cfg",
                       rule="all 128 unit-bit seeds of XorShiftRng (complete transition matrix and seed word order) stepped 5 times, structured states, random seeds x K consecutive next_u32 with state image compared after every call",
                       assumptions=COMMON_ASSUME + ["xor128 is GF(2)-linear with identity output: agreement on a basis plus linearity is agreement on all 2^128 states"])


def replay(path):
    """Re-execute the schedule of a replay file on the real code and print what comes back."""
    r = json.load(open(path))
    binp = vlib.build_harness()
    wd = vlib.workdir("replay")
    sp, tp = os.path.join(wd, "s.ndjson"), os.path.join(wd, "t.ndjson")
    if not r.get("schedule"):
        print("replay file has no schedule; contents:\n" + json.dumps(r, indent=1)[:4000])
        return 0
    vlib.write_ndjson(sp, r["schedule"])
    vlib.drive(binp, sp, tp)
    evs = vlib.read_ndjson(tp)
    i = r.get("rejected_event_index")
    print("property %s case %r: re-executed %d ops" % (r.get("property"), r.get("case"), len(evs)))
    if i and i <= len(evs):
        print("event #%d now   : %s" % (i, json.dumps(evs[i - 1])[:1500]))
        print("event #%d before: %s" % (i, json.dumps(r.get("rejected_event"))[:1500]))
    for m in r.get("spec_diagnostics", []):
        print("spec: " + m[:1500])
    return 0


def selftest():
    print("selftest not yet implemented")
    return 0
